#!/bin/bash
# Builds the verification harness offline from files on disk (the cargo registry cache).
set -e
cd "$(dirname "$0")"
export CARGO_NET_OFFLINE=true
export RUSTFLAGS="--cfg huggingface_xet_core_verif --check-cfg=cfg(huggingface_xet_core_verif)"
unset RUSTC_WRAPPER
mkdir -p work evidence replays
( cd harness && cargo build --profile verif --offline )
echo "setup ok"
