#![no_main]
//! C07: bytes -> (scheme, chunk boundaries, data); serialize and check the round trip against the
//! original data and the reference decoder; also BG4 split / regroup on the raw input.
use std::io::Cursor;

use cas_object::CasObject;
use libfuzzer_sys::fuzz_target;
use merklehash::MerkleHash;
use xv::refs::{merkle as rm, xorb as rx};

thread_local! {
    static RT: tokio::runtime::Runtime = tokio::runtime::Builder::new_current_thread().build().unwrap();
}

fuzz_target!(|input: &[u8]| {
    if input.len() < 3 {
        return;
    }
    let scheme = xv::gen::xorb::scheme_of(input[0]);
    let n_cuts = (input[1] % 9) as usize;
    let mut p = 2;
    let mut cuts = Vec::new();
    for _ in 0..n_cuts {
        if p + 2 > input.len() {
            break;
        }
        cuts.push(u16::from_le_bytes([input[p], input[p + 1]]) as usize);
        p += 2;
    }
    let data = &input[p..];
    // BG4 on arbitrary bytes
    let g = cas_object::byte_grouping::bg4::bg4_split(data);
    assert_eq!(g, rx::bg4_split(data), "C07 violated: bg4_split differs from the reference");
    assert_eq!(cas_object::byte_grouping::bg4::bg4_regroup(&g), data, "C07 violated: regroup(split(d)) != d");
    assert_eq!(cas_object::byte_grouping::bg4::bg4_regroup(data), rx::bg4_regroup(data), "C07 violated: bg4_regroup differs from the reference");
    if data.is_empty() {
        return;
    }
    let mut bounds: Vec<usize> = cuts.iter().map(|c| 1 + c % data.len()).collect();
    bounds.push(data.len());
    bounds.sort();
    bounds.dedup();
    let mut prev = 0;
    let mut cb = Vec::new();
    let mut leaves = Vec::new();
    for b in &bounds {
        let h = rm::chunk_hash(&data[prev..*b]);
        cb.push((MerkleHash::from(&h), *b as u32));
        leaves.push((h, (*b - prev) as u64));
        prev = *b;
    }
    let hash = rm::xorb_hash(&leaves);
    let mut w = Cursor::new(Vec::new());
    let (cas, _) = CasObject::serialize(&mut w, &MerkleHash::from(&hash), data, &cb, scheme).expect("serialize");
    let bytes = w.into_inner();
    let mut rd = Cursor::new(&bytes);
    let back = CasObject::deserialize(&mut rd).expect("C07 violated: deserialize of a fresh xorb failed");
    assert_eq!(back, cas, "C07 violated: footer round trip");
    assert_eq!(back.get_all_bytes(&mut rd).expect("get_all_bytes"), data, "C07 violated: get_all_bytes differs from the input");
    let parsed = rx::parse(&bytes).expect("C07 violated: the reference decoder rejects the serialized object");
    parsed.footer_consistent().expect("C07 violated: footer does not describe the data");
    assert_eq!(parsed.hash(), hash, "C07 violated: recomputed hash differs");
    // chunk-region decoders: sync multi, and the async stream decoder under input-derived fragmentation
    let content = &bytes[..parsed.content_end];
    let (d_sync, idx_sync) = cas_object::deserialize_chunks(&mut Cursor::new(content)).expect("C07 violated: deserialize_chunks failed on a fresh xorb");
    assert_eq!(d_sync, data, "C07 violated: deserialize_chunks differs from the input");
    let mut pieces: Vec<Result<bytes::Bytes, std::io::Error>> = Vec::new();
    let (mut p, mut k) = (0usize, 0usize);
    while p < content.len() {
        let f = input[k % input.len()];
        k += 1;
        let sz = match (f ^ input[0]) % 4 {
            0 => 1,
            1 => 1 + (f as usize >> 2) % 16,
            2 => 1 + (f as usize) * 7,
            _ => 1 + (f as usize * 251) % content.len(),
        };
        let e = if pieces.len() > 3000 { content.len() } else { (p + sz).min(content.len()) };
        pieces.push(Ok(bytes::Bytes::copy_from_slice(&content[p..e])));
        p = e;
    }
    RT.with(|rt| {
        let (d_stream, idx_stream) = rt
            .block_on(cas_object::deserialize_async::deserialize_chunks_from_stream(futures::stream::iter(pieces)))
            .expect("C07 violated: the stream decoder failed on a fresh xorb delivered in fragments");
        assert_eq!(d_stream, d_sync, "C07 violated: stream decoder data differs from the sync decoder");
        assert_eq!(idx_stream, idx_sync, "C07 violated: stream decoder chunk index differs from the sync decoder");
    });
    let n = bounds.len() as u32;
    for (s, e) in [(0u32, n), (n - 1, n), (n / 2, n)] {
        if s < e {
            let lo = if s == 0 { 0 } else { bounds[s as usize - 1] };
            let hi = bounds[e as usize - 1];
            assert_eq!(back.get_bytes_by_chunk_range(&mut rd, s, e).expect("range"), &data[lo..hi], "C07 violated: chunk range differs from the input slice");
        }
    }
});
