#![no_main]
//! C09: bytes -> sorted (u64,u32) table with duplicate runs + probe keys; oracle = linear scan.
use std::io::Cursor;

use libfuzzer_sys::fuzz_target;
use mdb_shard::interpolation_search::search_on_sorted_u64s;
use utils::serialization_utils::read_u32;

fuzz_target!(|input: &[u8]| {
    if input.len() < 2 {
        return;
    }
    let buf_len = 1 + (input[0] % 8) as usize;
    let spread = input[1];
    let mut keys: Vec<u64> = Vec::new();
    for c in input[2..].chunks(3) {
        if c.len() < 3 {
            break;
        }
        let base = match c[0] % 6 {
            0 => 0u64,
            1 => u64::MAX,
            2 => u64::MAX - c[1] as u64,
            3 => (c[1] as u64) << (spread % 56),
            _ => u64::from_le_bytes([c[0], c[1], c[2], c[0] ^ 0x55, c[1] ^ 0xaa, c[2], c[0], c[1]]),
        };
        for _ in 0..(1 + c[2] % 12) {
            keys.push(base);
        }
        // stretch the table so that the interpolation phase runs
        for j in 0..(c[2] as u64 % 40) {
            keys.push(base.wrapping_add(j.wrapping_mul(0x0101_0101_0101)));
        }
    }
    keys.sort();
    let mut table = vec![0xEEu8; 8];
    for (i, k) in keys.iter().enumerate() {
        table.extend_from_slice(&k.to_le_bytes());
        table.extend_from_slice(&(i as u32).to_le_bytes());
    }
    let mut probes: Vec<u64> = keys.iter().step_by(1 + keys.len() / 16).cloned().collect();
    probes.extend_from_slice(&[0, 1, u64::MAX, u64::MAX - 1]);
    for p in probes.clone() {
        probes.push(p.wrapping_add(1));
        probes.push(p.wrapping_sub(1));
    }
    for p in probes {
        let want: Vec<u32> = keys.iter().enumerate().filter(|(_, k)| **k == p).map(|(i, _)| i as u32).collect();
        let mut out = vec![0u32; buf_len];
        let n = search_on_sorted_u64s(&mut Cursor::new(&table), 8, keys.len() as u64, p, read_u32::<Cursor<&Vec<u8>>>, &mut out).expect("search error");
        assert_eq!(n, want.len().min(buf_len), "C09 violated: wrong number of values for key {p:#x} in a table of {} keys", keys.len());
        let mut got = out[..n].to_vec();
        got.sort();
        got.dedup();
        assert!(got.len() == n && got.iter().all(|v| want.contains(v)), "C09 violated: values {:?} are not distinct entries of key {p:#x}", &out[..n]);
    }
});
