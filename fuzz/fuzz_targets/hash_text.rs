#![no_main]
//! C06: arbitrary text through DataHash::from_hex / from_base64 against the reference parser, and
//! arbitrary byte strings through the streaming hasher under a byte-derived write partition.
use std::io::Write;

use libfuzzer_sys::fuzz_target;
use merklehash::{compute_data_hash, DataHash, HashedWrite};
use xv::refs::merkle as rm;

fuzz_target!(|input: &[u8]| {
    if let Ok(s) = std::str::from_utf8(input) {
        let want = rm::from_hex(s);
        let got = DataHash::from_hex(s).ok().map(|h| -> [u8; 32] { h.into() });
        assert_eq!(want, got, "C06 violated: from_hex({s:?}) disagrees with the reference parser");
        if let Some(h) = got {
            assert_eq!(DataHash::from(&h).hex(), s.to_ascii_lowercase(), "C06 violated: hex(from_hex(s)) != lower(s)");
        }
        if let Ok(h) = DataHash::from_base64(s) {
            assert_eq!(DataHash::from_base64(&h.base64()).unwrap(), h, "C06 violated: base64 round trip");
        }
    }
    // streaming hasher: first byte = stride of the write partition
    if let Some((&stride, data)) = input.split_first() {
        let want = rm::chunk_hash(data);
        let one: [u8; 32] = compute_data_hash(data).into();
        assert_eq!(one, want, "C06 violated: compute_data_hash differs from the reference");
        let mut sink = Vec::new();
        let mut hw = HashedWrite::new(&mut sink);
        let step = 1 + stride as usize % 97;
        let mut k = 0usize;
        for c in data.chunks(step) {
            // interleave empty writes
            if k % 3 == 0 {
                hw.write_all(&[]).unwrap();
            }
            hw.write_all(c).unwrap();
            k += 1;
        }
        let got: [u8; 32] = hw.hash().into();
        assert_eq!(got, want, "C06 violated: streaming hash differs from the one-shot hash");
    }
});
