#![no_main]
//! C04: bytes -> (target, mode, call partition, data); oracle = reference chunker (same as the
//! proptest check). A failed oracle panics, which libFuzzer records as a crash.
use libfuzzer_sys::fuzz_target;

fuzz_target!(|input: &[u8]| {
    if input.len() < 4 {
        return;
    }
    let target = 1usize << (7 + (input[0] % 6) as usize); // 128 .. 4096
    let mode = input[1] % 3;
    let n_calls = (input[2] % 12) as usize;
    let mut p = 3;
    let mut calls = Vec::new();
    for _ in 0..n_calls {
        if p + 3 > input.len() {
            break;
        }
        calls.push((input[p] % 8, u16::from_le_bytes([input[p + 1], input[p + 2]])));
        p += 3;
    }
    let data = &input[p..];
    if let Err(e) = xv::props::c04::check_stream(target, data, &calls, mode) {
        panic!("C04 violated: {e}");
    }
});
