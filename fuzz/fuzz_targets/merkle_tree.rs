#![no_main]
//! C06: bytes -> chunk list (hash seeds with forced branching words, repeats, extreme lengths) ->
//! cas_node_hash / file_node_hash / validator path / range hash / salting against the independent
//! Merkle reference, plus the change / swap / insert / drop / length metamorphic relations (the
//! aggregate oracle of the proptest check).
use libfuzzer_sys::fuzz_target;
use xv::props::c06::{check_agg, AggCase, Entry};

fuzz_target!(|input: &[u8]| {
    if input.len() < 12 {
        return;
    }
    let salt_seed = u64::from_le_bytes(input[0..8].try_into().unwrap());
    let mutate_at = u16::from_le_bytes([input[8], input[9]]);
    let mutate_at2 = u16::from_le_bytes([input[10], input[11]]);
    let mut entries = Vec::new();
    // 8 bytes per entry: 3 seed bytes, control byte, 4 length bytes
    for r in input[12..].chunks_exact(8) {
        let ctl = r[3];
        entries.push(Entry {
            seed: u64::from_le_bytes([r[0], r[1], r[2], 0, 0, 0, 0, 0]),
            branch: ctl % 3,
            len_kind: (ctl >> 2) % 8,
            len: u32::from_le_bytes([r[4], r[5], r[6], r[7]]),
            repeat_of: if ctl >> 5 == 7 { Some(u16::from_le_bytes([r[4], r[5]])) } else { None },
        });
        if entries.len() >= 2000 {
            break;
        }
    }
    if entries.is_empty() {
        return;
    }
    if let Err(e) = check_agg(&AggCase { entries, salt_seed, mutate_at, mutate_at2 }) {
        panic!("C06 violated: {e}");
    }
});
