#![no_main]
//! C08: arbitrary bytes (seeded with valid objects) through both validators and the footer parser;
//! oracle = reference decoder (acceptance implies consistency); a panic is a crash by itself.
use libfuzzer_sys::fuzz_target;

// the allocation cap of the C08 oracle (check_bytes arms it) needs the counting allocator
#[global_allocator]
static GLOBAL: xv::util::alloc_guard::CountingAlloc = xv::util::alloc_guard::CountingAlloc;

fuzz_target!(|input: &[u8]| {
    if input.len() < 33 {
        return;
    }
    // claimed hash: first 32 bytes, or (selector) the reference hash of whatever decodes
    let (head, body) = input.split_at(33);
    let mut claimed = [0u8; 32];
    claimed.copy_from_slice(&head[..32]);
    if head[32] % 2 == 1 {
        if let Ok((chunks, _)) = xv::refs::xorb::walk(body) {
            if !chunks.is_empty() {
                let leaves: Vec<([u8; 32], u64)> = chunks.iter().map(|c| (xv::refs::merkle::chunk_hash(&c.data), c.data.len() as u64)).collect();
                claimed = xv::refs::merkle::xorb_hash(&leaves);
            }
        }
    }
    // selector 2 / 3 (mod 4): structure-aware splice - if the body parses, insert (2) or remove (3) a few
    // bytes at a structural offset (a chunk boundary, the end of the chunk region, inside the footer)
    let mut owned;
    let mut body = body;
    if head[32] % 4 >= 2 && body.len() > 8 {
        if let Ok(p) = xv::refs::xorb::parse(body) {
            let mut offs: Vec<usize> = p.chunks.iter().map(|c| c.start).collect();
            offs.push(p.content_end);
            offs.push(p.content_end + (body.len() - p.content_end) / 2);
            offs.push(body.len().saturating_sub(4));
            let at = offs[(head[32] as usize >> 2) % offs.len()].min(body.len());
            let k = 1 + (head[31] as usize % 9);
            owned = body[..at].to_vec();
            if head[32] % 4 == 2 {
                owned.extend((0..k).map(|i| head[i % 31] ^ body[i % body.len()]));
                owned.extend_from_slice(&body[at..]);
            } else {
                owned.extend_from_slice(&body[(at + k).min(body.len())..]);
            }
            claimed = p.hash();
            body = &owned[..];
        }
    }
    if let Err(e) = xv::props::c08::check_bytes(body, &claimed, &[7, 300, 1], false) {
        panic!("C08 violated: {e}");
    }
});
