//! xv: verification harness for huggingface/xet-core (library part: engine, generators, reference
//! implementations and the per-property oracles; the binary `xv` and the fuzz targets use it).
pub mod cachex;
pub mod engine;
pub mod fuzzdrv;
pub mod gen;
pub mod props;
pub mod refs;
pub mod session;
pub mod util;
