//! C10 Shard union, difference and consolidation neither lose nor invent records.

use std::collections::{BTreeMap, BTreeSet};
use std::io::Cursor;

use mdb_shard::cas_structs::MDBCASInfo;
use mdb_shard::file_structs::{FileMetadataExt, FileVerificationEntry, MDBFileInfo, MDB_FILE_FLAG_WITH_METADATA_EXT, MDB_FILE_FLAG_WITH_VERIFICATION};
use mdb_shard::session_directory::consolidate_shards_in_directory;
use mdb_shard::set_operations::{shard_file_difference, shard_file_union, shard_set_difference, shard_set_union};
use mdb_shard::MDBShardInfo;
use merklehash::compute_data_hash;
use proptest::prelude::*;
use serde::{Deserialize, Serialize};
use serde_json::json;

use crate::engine::{Case, Ctx, Sm64};
use crate::gen::shard::{materialize, mh, shard_spec, unkey, ShardModel, ShardSpec, K};

pub const RULE: &str = "pairs of unkeyed shard contents with controlled overlap (shared xorbs; shared files carrying the four flag combinations independently on each side but equal segments; identical; empty; shared truncated prefixes) through shard_set_union / shard_set_difference (cursors), shard_file_union / shard_file_difference (files) and MDBInMemoryShard::union / difference; oracle = model union (flags OR-ed, verification / metadata from whichever side has them) and model difference (second minus first), every output record retrievable through the rebuilt lookup tables, chunk table = recomputed, totals = sums, num_bytes = length. Directory stream: 1..8 shard files built from subsets of a universe (overlapping, subset, empty) plus non-shard files, consolidated under a generated size threshold; oracle = record set before == after over the returned shards, returned paths exist and are named by the hash of their content, every deleted input's records are in a returned shard, directory shard files == returned set, other files untouched. non-trivial = a pair containing a shared file whose flag sets are incomparable (merge branch) or a prefix collision; a directory where >= 2 shards merged and some input was a subset of another; distinct by fingerprint of the generated case";

pub const ASSUMPTIONS: &[&str] = &[
    "inputs are unkeyed shards (the only callers of the set operations and of consolidation)",
    "a file hash identifies one segment list: records of the same file in two shards differ only in optional verification / metadata sections, and those sections agree where both are present",
    "a xorb hash identifies one chunk list",
];

#[derive(Clone, Debug, Serialize, Deserialize)]
pub struct PairCase {
    pub a: ShardSpec,
    pub b: ShardSpec,
    /// records of A copied into B: (selector, flag variant for files: bit0 verification, bit1 metadata)
    pub share_files: Vec<(u16, u8)>,
    pub share_xorbs: Vec<u16>,
    pub identical: bool,
}

fn pair_case() -> impl Strategy<Value = PairCase> {
    (
        shard_spec(300, 300),
        shard_spec(300, 300),
        proptest::collection::vec((any::<u16>(), 0u8..4), 0..12),
        proptest::collection::vec(any::<u16>(), 0..8),
        proptest::bool::weighted(0.08),
    )
        .prop_map(|(a, mut b, share_files, share_xorbs, identical)| {
            b.salt = a.salt; // same prefix families on both sides
            PairCase { a, b, share_files, share_xorbs, identical }
        })
}

fn with_flags(f: &MDBFileInfo, verification: bool, metadata: bool, seed: u64) -> MDBFileInfo {
    let mut g = f.clone();
    // canonical optional sections derived from the file key, so both sides agree when both carry them
    let mut r = Sm64(seed);
    g.metadata.file_flags &= !(MDB_FILE_FLAG_WITH_VERIFICATION | MDB_FILE_FLAG_WITH_METADATA_EXT);
    g.verification = vec![];
    g.metadata_ext = None;
    let ver: Vec<FileVerificationEntry> = (0..g.segments.len())
        .map(|_| {
            let mut h = [0u8; 32];
            r.fill(&mut h);
            FileVerificationEntry::new(mh(&h))
        })
        .collect();
    let mut sha = [0u8; 32];
    r.fill(&mut sha);
    if verification {
        g.metadata.file_flags |= MDB_FILE_FLAG_WITH_VERIFICATION;
        g.verification = ver;
    }
    if metadata {
        g.metadata.file_flags |= MDB_FILE_FLAG_WITH_METADATA_EXT;
        g.metadata_ext = Some(FileMetadataExt::new(mh(&sha)));
    }
    g
}

fn canon(m: &mut ShardModel) {
    // make optional sections a function of (file key) so that equal flags imply equal sections
    let keys: Vec<K> = m.files.keys().cloned().collect();
    for k in keys {
        let f = m.files[&k].clone();
        let g = with_flags(&f, f.contains_verification(), f.contains_metadata_ext(), k[1] ^ k[2]);
        m.files.insert(k, g);
    }
}

pub fn model_union(a: &ShardModel, b: &ShardModel) -> ShardModel {
    let mut out = a.clone();
    for (k, x) in &b.xorbs {
        out.xorbs.entry(*k).or_insert_with(|| x.clone());
    }
    for (k, f) in &b.files {
        match out.files.get(k).cloned() {
            None => {
                out.files.insert(*k, f.clone());
            },
            Some(fa) => {
                let v = fa.contains_verification() || f.contains_verification();
                let m = fa.contains_metadata_ext() || f.contains_metadata_ext();
                let mut g = fa.clone();
                g.metadata.file_flags = fa.metadata.file_flags | f.metadata.file_flags;
                if v {
                    g.verification = if fa.contains_verification() { fa.verification.clone() } else { f.verification.clone() };
                }
                if m {
                    g.metadata_ext = if fa.contains_metadata_ext() { fa.metadata_ext.clone() } else { f.metadata_ext.clone() };
                }
                out.files.insert(*k, g);
            },
        }
    }
    out
}

pub fn model_difference(a: &ShardModel, b: &ShardModel) -> ShardModel {
    // second minus first
    let mut out = ShardModel::default();
    for (k, x) in &b.xorbs {
        if !a.xorbs.contains_key(k) {
            out.xorbs.insert(*k, x.clone());
        }
    }
    for (k, f) in &b.files {
        if !a.files.contains_key(k) {
            out.files.insert(*k, f.clone());
        }
    }
    out
}

/// Full check of a serialized shard against a model (records, lookups, tables, totals).
pub fn check_shard_bytes(what: &str, buf: &[u8], returned: Option<&MDBShardInfo>, model: &ShardModel) -> Result<(), String> {
    let si = MDBShardInfo::load_from_reader(&mut Cursor::new(buf)).map_err(|e| format!("[sig:c10-load] {what}: output does not load: {e}"))?;
    if let Some(r) = returned {
        if *r != si {
            return Err(format!("[sig:c10-returned-info] {what}: returned shard info differs from what the output file holds"));
        }
    }
    if si.num_bytes() != buf.len() as u64 {
        return Err(format!("[sig:c10-num-bytes] {what}: num_bytes {} != length {}", si.num_bytes(), buf.len()));
    }
    let mut rd = Cursor::new(buf);
    let files = si.read_all_file_info_sections(&mut rd).map_err(|e| format!("[sig:c10-scan] {what}: {e}"))?;
    let want_files: Vec<MDBFileInfo> = model.files.values().cloned().collect();
    if files != want_files {
        let got_keys: BTreeSet<K> = files.iter().map(|f| *f.metadata.file_hash).collect();
        let want_keys: BTreeSet<K> = model.files.keys().cloned().collect();
        let lost: Vec<_> = want_keys.difference(&got_keys).take(3).collect();
        let invented: Vec<_> = got_keys.difference(&want_keys).take(3).collect();
        return Err(format!(
            "[sig:c10-file-records] {what}: file records differ from the model ({} vs {} records; lost {:x?}; invented {:x?}; same key set: {})",
            files.len(),
            want_files.len(),
            lost,
            invented,
            got_keys == want_keys
        ));
    }
    let xorbs = si.read_all_cas_blocks_full(&mut rd).map_err(|e| format!("[sig:c10-scan] {what}: {e}"))?;
    let want_x: Vec<MDBCASInfo> = model.xorbs.values().cloned().collect();
    if xorbs != want_x {
        return Err(format!("[sig:c10-xorb-records] {what}: xorb records differ from the model ({} vs {})", xorbs.len(), want_x.len()));
    }
    // retrievable through the rebuilt lookup tables
    for (k, f) in &model.files {
        match si.get_file_reconstruction_info(&mut rd, &mh(&unkey(k))) {
            Ok(Some(g)) if g == *f => {},
            other => return Err(format!("[sig:c10-file-lookup] {what}: file {:016x}.. not retrievable through the lookup table: {:?}", k[0], other.map(|o| o.is_some()))),
        }
    }
    for (k, _) in &model.xorbs {
        let mut dest = [0u32; 8];
        let n = si.get_cas_info_index_by_hash(&mut rd, &mh(&unkey(k)), &mut dest).map_err(|e| format!("[sig:c10-cas-lookup] {what}: {e}"))?;
        let mut ok = false;
        for i in 0..n {
            let off = (si.metadata.cas_info_offset + 48 * dest[i] as u64) as usize;
            if off + 48 <= buf.len() {
                if let Ok(Some(ci)) = MDBCASInfo::deserialize(&mut Cursor::new(&buf[off..])) {
                    if *ci.metadata.cas_hash == *k {
                        ok = true;
                    }
                }
            }
        }
        if !ok {
            return Err(format!("[sig:c10-cas-lookup] {what}: xorb {:016x}.. not retrievable through the cas lookup table", k[0]));
        }
    }
    // chunk lookup table = recomputed, sorted
    let trunc = si.read_all_truncated_hashes(&mut rd).map_err(|e| format!("[sig:c10-scan] {what}: {e}"))?;
    if trunc.windows(2).any(|w| w[0].0 > w[1].0) {
        return Err(format!("[sig:c10-chunk-table-unsorted] {what}: chunk lookup table not sorted"));
    }
    let mut want_t = Vec::new();
    let mut index = 0u32;
    for x in model.xorbs.values() {
        for (i, c) in x.chunks.iter().enumerate() {
            want_t.push((c.chunk_hash[0], (index, i as u32)));
        }
        index += 1 + x.chunks.len() as u32;
    }
    let mut t = trunc.clone();
    t.sort();
    want_t.sort();
    if t != want_t {
        return Err(format!("[sig:c10-chunk-table] {what}: chunk lookup table differs from the recomputed one ({} vs {} entries)", t.len(), want_t.len()));
    }
    if si.metadata.file_lookup_num_entry as usize != model.files.len() || si.metadata.cas_lookup_num_entry as usize != model.xorbs.len() {
        return Err(format!("[sig:c10-table-counts] {what}: lookup table sizes differ from the record counts"));
    }
    // totals
    let mat: u64 = model.files.values().map(|f| f.segments.iter().map(|s| s.unpacked_segment_bytes as u64).sum::<u64>()).sum();
    let stored: u64 = model.xorbs.values().map(|x| x.metadata.num_bytes_in_cas as u64).sum();
    let disk: u64 = model.xorbs.values().map(|x| x.metadata.num_bytes_on_disk as u64).sum();
    if si.materialized_bytes() != mat || si.stored_bytes() != stored || si.stored_bytes_on_disk() != disk {
        return Err(format!(
            "[sig:c10-totals] {what}: totals (materialized {}, stored {}, on-disk {}) differ from the sums over the records ({mat}, {stored}, {disk})",
            si.materialized_bytes(),
            si.stored_bytes(),
            si.stored_bytes_on_disk()
        ));
    }
    Ok(())
}

fn build_pair(c: &PairCase) -> (ShardModel, ShardModel, bool, bool) {
    let mut a = materialize(&c.a);
    canon(&mut a);
    let mut b = if c.identical { a.clone() } else { materialize(&c.b) };
    canon(&mut b);
    let mut merge_branch = false;
    if !c.identical {
        let akeys: Vec<K> = a.files.keys().cloned().collect();
        for (sel, variant) in &c.share_files {
            if akeys.is_empty() {
                break;
            }
            let k = akeys[crate::engine::idx(*sel, akeys.len())];
            let fa = &a.files[&k];
            let g = with_flags(fa, variant & 1 != 0, variant & 2 != 0, k[1] ^ k[2]);
            let fa_flags = (fa.contains_verification(), fa.contains_metadata_ext());
            let g_flags = (variant & 1 != 0, variant & 2 != 0);
            if (fa_flags.0 && !fa_flags.1 && !g_flags.0 && g_flags.1) || (!fa_flags.0 && fa_flags.1 && g_flags.0 && !g_flags.1) {
                merge_branch = true;
            }
            b.files.insert(k, g);
        }
        let xkeys: Vec<K> = a.xorbs.keys().cloned().collect();
        for sel in &c.share_xorbs {
            if xkeys.is_empty() {
                break;
            }
            let k = xkeys[crate::engine::idx(*sel, xkeys.len())];
            b.xorbs.insert(k, a.xorbs[&k].clone());
        }
    }
    // a file key present on both sides by accident must agree on segments (precondition): drop from b otherwise
    let both: Vec<K> = b.files.keys().filter(|k| a.files.contains_key(*k)).cloned().collect();
    for k in both {
        if a.files[&k].segments != b.files[&k].segments {
            b.files.remove(&k);
        }
    }
    let bothx: Vec<K> = b.xorbs.keys().filter(|k| a.xorbs.contains_key(*k)).cloned().collect();
    for k in bothx {
        if a.xorbs[&k] != b.xorbs[&k] {
            b.xorbs.remove(&k);
        }
    }
    // the union must respect the documented limit of seven records per truncated prefix: drop B-only
    // records that would exceed it
    for which in 0..2 {
        let mut prefixes: BTreeMap<u64, usize> = BTreeMap::new();
        let akeys: Vec<K> = if which == 0 { a.files.keys().cloned().collect() } else { a.xorbs.keys().cloned().collect() };
        for k in &akeys {
            *prefixes.entry(k[0]).or_default() += 1;
        }
        let bkeys: Vec<K> = if which == 0 { b.files.keys().cloned().collect() } else { b.xorbs.keys().cloned().collect() };
        for k in bkeys {
            if akeys.contains(&k) {
                continue;
            }
            let e = prefixes.entry(k[0]).or_default();
            if *e >= 7 {
                if which == 0 {
                    b.files.remove(&k);
                } else {
                    b.xorbs.remove(&k);
                }
            } else {
                *e += 1;
            }
        }
    }
    let collision = a.files.keys().any(|k| b.files.keys().any(|j| j[0] == k[0] && j != k));
    (a, b, merge_branch, collision)
}

fn pair_oracle(c: &PairCase, info: &mut Case) -> Result<(), String> {
    let (a, b, merge_branch, collision) = build_pair(c);
    let (ba, ia, ma) = crate::gen::shard::serialize(&a)?;
    let (bb, ib, mb) = crate::gen::shard::serialize(&b)?;
    let want_u = model_union(&a, &b);
    let want_d = model_difference(&a, &b);

    let mut out = Vec::new();
    let ru = shard_set_union(&ia, &mut Cursor::new(&ba), &ib, &mut Cursor::new(&bb), &mut out).map_err(|e| format!("[sig:c10-union-err] {e}"))?;
    check_shard_bytes("shard_set_union", &out, Some(&ru), &want_u)?;
    let mut outd = Vec::new();
    let rd = shard_set_difference(&ia, &mut Cursor::new(&ba), &ib, &mut Cursor::new(&bb), &mut outd).map_err(|e| format!("[sig:c10-diff-err] {e}"))?;
    check_shard_bytes("shard_set_difference", &outd, Some(&rd), &want_d)?;
    // commutes up to the richer-variant rule: union(b, a) holds the same records
    let mut out2 = Vec::new();
    shard_set_union(&ib, &mut Cursor::new(&bb), &ia, &mut Cursor::new(&ba), &mut out2).map_err(|e| format!("[sig:c10-union-err] {e}"))?;
    check_shard_bytes("shard_set_union (swapped)", &out2, None, &model_union(&b, &a))?;

    // in-memory counterparts
    let mu = ma.union(&mb).map_err(|e| format!("[sig:c10-mem-union-err] {e}"))?;
    let mut bu = Vec::new();
    MDBShardInfo::serialize_from(&mut bu, &mu).map_err(|e| format!("[sig:c10-mem-union-err] {e}"))?;
    check_shard_bytes("MDBInMemoryShard::union", &bu, None, &want_u)?;
    if mu.shard_file_size() != bu.len() as u64 {
        info.label("observation:mem-union-size-accounting-differs-from-serialized");
    }
    let md = ma.difference(&mb).map_err(|e| format!("[sig:c10-mem-diff-err] {e}"))?;
    let mut bd = Vec::new();
    MDBShardInfo::serialize_from(&mut bd, &md).map_err(|e| format!("[sig:c10-mem-diff-err] {e}"))?;
    check_shard_bytes("MDBInMemoryShard::difference", &bd, None, &want_d)?;

    // file variants (a sample: they share the implementation, so every 4th case by content)
    if (a.files.len() + b.xorbs.len()) % 4 == 0 {
        let tmp = tempfile::tempdir().map_err(|e| e.to_string())?;
        let pa = tmp.path().join("a.mdb");
        let pb = tmp.path().join("b.mdb");
        std::fs::write(&pa, &ba).map_err(|e| e.to_string())?;
        std::fs::write(&pb, &bb).map_err(|e| e.to_string())?;
        let po = tmp.path().join("out_u.mdb");
        let (h, si) = shard_file_union(&pa, &pb, &po).map_err(|e| format!("[sig:c10-file-union-err] {e}"))?;
        let ob = std::fs::read(&po).map_err(|e| e.to_string())?;
        if compute_data_hash(&ob) != h {
            return Err("[sig:c10-file-union-hash] shard_file_union returned a hash that is not the hash of the output file".into());
        }
        check_shard_bytes("shard_file_union", &ob, Some(&si), &want_u)?;
        let pd = tmp.path().join("out_d.mdb");
        let (h, si) = shard_file_difference(&pa, &pb, &pd).map_err(|e| format!("[sig:c10-file-diff-err] {e}"))?;
        let ob = std::fs::read(&pd).map_err(|e| e.to_string())?;
        if compute_data_hash(&ob) != h {
            return Err("[sig:c10-file-diff-hash] shard_file_difference returned a hash that is not the hash of the output file".into());
        }
        check_shard_bytes("shard_file_difference", &ob, Some(&si), &want_d)?;
        let leftovers: Vec<_> = std::fs::read_dir(tmp.path()).unwrap().filter_map(|e| e.ok()).map(|e| e.file_name().to_string_lossy().to_string()).filter(|n| n.ends_with("mdb_temp")).collect();
        if !leftovers.is_empty() {
            return Err(format!("[sig:c10-temp-left] file set operations left temporary files behind: {leftovers:?}"));
        }
        info.label("file-variants");
    }
    let shared_files = b.files.keys().filter(|k| a.files.contains_key(*k)).count();
    let shared_xorbs = b.xorbs.keys().filter(|k| a.xorbs.contains_key(*k)).count();
    info.nontrivial_if(merge_branch || collision);
    if merge_branch {
        info.label("merge-branch");
    }
    if collision {
        info.label("cross-shard-prefix-collision");
    }
    if c.identical {
        info.label("identical-pair");
    }
    if a.files.is_empty() && a.xorbs.is_empty() || b.files.is_empty() && b.xorbs.is_empty() {
        info.label("one-side-empty");
    }
    if shared_files > 0 {
        info.label("shared-files");
    }
    if shared_xorbs > 0 {
        info.label("shared-xorbs");
    }
    info.note = Some(json!({"a_files": a.files.len(), "b_files": b.files.len(), "a_xorbs": a.xorbs.len(), "b_xorbs": b.xorbs.len(), "shared_files": shared_files, "shared_xorbs": shared_xorbs}));
    Ok(())
}

// ---------------------------------------------------------------------------------------------

#[derive(Clone, Debug, Serialize, Deserialize)]
pub struct DirCase {
    pub universe: ShardSpec,
    /// each shard = subset mask seeds over the universe's files / xorbs, plus flag-variant seed
    pub shards: Vec<(u64, u8)>,
    pub threshold: u32,
    pub junk: u8,
}

fn dir_case() -> impl Strategy<Value = DirCase> {
    (
        shard_spec(20, 20),
        proptest::collection::vec((any::<u64>(), 0u8..6), 1..=8),
        prop_oneof![2 => 0u32..600, 4 => 600u32..20_000, 3 => 20_000u32..2_000_000, 1 => Just(u32::MAX)],
        0u8..4,
    )
        .prop_map(|(universe, shards, threshold, junk)| DirCase { universe, shards, threshold, junk })
}

fn subset_model(u: &ShardModel, seed: u64, kind: u8) -> ShardModel {
    let mut m = ShardModel::default();
    let mut r = Sm64(seed);
    let density = match kind {
        0 => 0,          // empty shard
        1 => 100,        // everything
        2 => 25,
        _ => 50,
    };
    for (k, x) in &u.xorbs {
        if r.next() % 100 < density {
            m.xorbs.insert(*k, x.clone());
        }
    }
    for (k, f) in &u.files {
        if r.next() % 100 < density {
            let v = r.next();
            m.files.insert(*k, with_flags(f, v & 1 != 0, v & 2 != 0, k[1] ^ k[2]));
        }
    }
    m
}

fn list_dir(dir: &std::path::Path) -> BTreeMap<String, Vec<u8>> {
    let mut m = BTreeMap::new();
    if let Ok(rd) = std::fs::read_dir(dir) {
        for e in rd.flatten() {
            if let Ok(b) = std::fs::read(e.path()) {
                m.insert(e.file_name().to_string_lossy().to_string(), b);
            }
        }
    }
    m
}

fn parse_records(buf: &[u8]) -> Result<(Vec<MDBFileInfo>, Vec<MDBCASInfo>), String> {
    let si = MDBShardInfo::load_from_reader(&mut Cursor::new(buf)).map_err(|e| format!("{e}"))?;
    let f = si.read_all_file_info_sections(&mut Cursor::new(buf)).map_err(|e| format!("{e}"))?;
    let x = si.read_all_cas_blocks_full(&mut Cursor::new(buf)).map_err(|e| format!("{e}"))?;
    Ok((f, x))
}

/// record set of a collection of shards: file key -> (segments, OR of flags); xorb key -> record
fn record_set(shards: &[(Vec<MDBFileInfo>, Vec<MDBCASInfo>)]) -> (BTreeMap<K, (Vec<u8>, u32)>, BTreeMap<K, MDBCASInfo>) {
    let mut files: BTreeMap<K, (Vec<u8>, u32)> = BTreeMap::new();
    let mut xorbs = BTreeMap::new();
    for (fs, xs) in shards {
        for f in fs {
            let mut seg = Vec::new();
            for s in &f.segments {
                s.serialize(&mut seg).unwrap();
            }
            let e = files.entry(*f.metadata.file_hash).or_insert((seg.clone(), 0));
            e.1 |= f.metadata.file_flags;
        }
        for x in xs {
            xorbs.insert(*x.metadata.cas_hash, x.clone());
        }
    }
    (files, xorbs)
}

fn dir_oracle(c: &DirCase, info: &mut Case) -> Result<(), String> {
    let mut u = materialize(&c.universe);
    canon(&mut u);
    let tmp = tempfile::tempdir().map_err(|e| e.to_string())?;
    let dir = tmp.path();
    let mut inputs: BTreeMap<String, ShardModel> = BTreeMap::new();
    for (seed, kind) in &c.shards {
        let m = subset_model(&u, *seed, *kind);
        let p = m.to_in_memory().write_to_directory(dir).map_err(|e| format!("[sig:c10-write] {e}"))?;
        inputs.insert(p.file_name().unwrap().to_string_lossy().to_string(), m);
    }
    // non-shard files that must be left alone
    let mut junk_names = Vec::new();
    if c.junk & 1 != 0 {
        std::fs::write(dir.join("notes.txt"), b"not a shard").unwrap();
        junk_names.push("notes.txt".to_string());
    }
    if c.junk & 2 != 0 {
        std::fs::write(dir.join(".0000.mdb_temp"), b"leftover temp").unwrap();
        junk_names.push(".0000.mdb_temp".to_string());
    }
    let before = list_dir(dir);
    let before_parsed: Vec<_> = before.iter().filter(|(n, _)| n.ends_with(".mdb")).map(|(_, b)| parse_records(b).unwrap()).collect();
    let (bf, bx) = record_set(&before_parsed);

    // the callers pass MDB_SHARD_MIN_TARGET_SIZE (64 MiB by default); the routine pre-allocates buffers of that size
    let threshold = if c.threshold == u32::MAX { 64 << 20 } else { c.threshold as u64 };
    let returned = consolidate_shards_in_directory(dir, threshold).map_err(|e| format!("[sig:c10-consolidate-err] {e}"))?;

    let after = list_dir(dir);
    // returned paths exist, named by content hash
    let mut returned_names = BTreeSet::new();
    for sf in &returned {
        let name = sf.path.file_name().unwrap().to_string_lossy().to_string();
        let Some(bytes) = after.get(&name) else {
            return Err(format!("[sig:c10-returned-missing] consolidation returned {name}, which does not exist in the directory"));
        };
        let h = compute_data_hash(bytes);
        if h != sf.shard_hash || name != format!("{}.mdb", h.hex()) {
            return Err(format!("[sig:c10-returned-name] returned shard {name} is not named by the hash of its content"));
        }
        // (the same shard may be returned twice when a merge result coincides with another input;
        // the property does not forbid it - counted as an observation)
        if !returned_names.insert(name.clone()) {
            info.label("observation:same-shard-returned-twice");
        }
    }
    // directory shard files == returned set; other files untouched
    let after_shards: BTreeSet<String> = after.keys().filter(|n| n.ends_with(".mdb")).cloned().collect();
    if after_shards != returned_names {
        return Err(format!(
            "[sig:c10-dir-vs-returned] shard files in the directory {:?} differ from the returned set {:?}",
            after_shards.iter().map(|s| &s[..8]).collect::<Vec<_>>(),
            returned_names.iter().map(|s| &s[..8]).collect::<Vec<_>>()
        ));
    }
    for j in &junk_names {
        if after.get(j) != before.get(j) {
            return Err(format!("[sig:c10-junk-touched] non-shard file {j} was modified or removed by consolidation"));
        }
    }
    let extra: Vec<_> = after.keys().filter(|n| !n.ends_with(".mdb") && !junk_names.contains(n)).collect();
    if !extra.is_empty() {
        return Err(format!("[sig:c10-temp-left] consolidation left extra files behind: {extra:?}"));
    }
    // record set before == after
    let mut after_parsed = Vec::new();
    for n in &after_shards {
        let recs = parse_records(&after[n]).map_err(|e| format!("[sig:c10-returned-unreadable] returned shard {n} does not parse: {e}"))?;
        // each returned shard must be internally consistent as well
        let mut m = ShardModel::default();
        for f in &recs.0 {
            m.files.insert(*f.metadata.file_hash, f.clone());
        }
        for x in &recs.1 {
            m.xorbs.insert(*x.metadata.cas_hash, x.clone());
        }
        check_shard_bytes("consolidated shard", &after[n], None, &m)?;
        after_parsed.push(recs);
    }
    let (af, ax) = record_set(&after_parsed);
    if af != bf {
        let lost: Vec<_> = bf.keys().filter(|k| !af.contains_key(*k)).take(3).collect();
        let invented: Vec<_> = af.keys().filter(|k| !bf.contains_key(*k)).take(3).collect();
        return Err(format!("[sig:c10-consolidate-files] retrievable file records changed: lost {:x?}, invented {:x?}, or flags/segments differ", lost, invented));
    }
    if ax != bx {
        return Err("[sig:c10-consolidate-xorbs] retrievable xorb records changed across consolidation".into());
    }
    // every deleted input's records are in some single returned shard
    let mut merged_inputs = 0;
    for (name, m) in &inputs {
        if after.contains_key(name) {
            continue;
        }
        merged_inputs += 1;
        let ok = after_parsed.iter().any(|(fs, xs)| {
            m.files.keys().all(|k| fs.iter().any(|f| *f.metadata.file_hash == *k)) && m.xorbs.keys().all(|k| xs.iter().any(|x| *x.metadata.cas_hash == *k))
        });
        if !ok {
            return Err(format!("[sig:c10-deleted-not-covered] input shard {} was deleted but no returned shard holds all of its records", &name[..8]));
        }
    }
    // classification
    let subset_pair = inputs.values().enumerate().any(|(i, a)| {
        inputs.values().enumerate().any(|(j, b)| i != j && a.files.keys().all(|k| b.files.contains_key(k)) && a.xorbs.keys().all(|k| b.xorbs.contains_key(k)))
    });
    info.nontrivial_if(merged_inputs >= 2 && subset_pair);
    if merged_inputs >= 2 {
        info.label("merged>=2-inputs");
    }
    if merged_inputs == 0 {
        info.label("nothing-merged");
    }
    if subset_pair {
        info.label("has-subset-input");
    }
    if inputs.values().any(|m| m.files.is_empty() && m.xorbs.is_empty()) {
        info.label("has-empty-input");
    }
    info.label(format!("returned={}", returned.len().min(5)));
    info.note = Some(json!({"inputs": inputs.len(), "returned": returned.len(), "merged_inputs": merged_inputs, "threshold": threshold}));
    Ok(())
}

pub fn run(ctx: &Ctx) {
    ctx.explore("pair", ctx.tier.pick(20_000, 600_000), 16, pair_case, pair_oracle);
    ctx.explore("directory", ctx.tier.pick(10_000, 300_000), 16, dir_case, dir_oracle);
}
