//! C20 Singleflight runs one task per key and every caller gets its outcome.

use std::sync::atomic::{AtomicU64, Ordering};
use std::sync::{Arc, Mutex};
use std::time::Duration;

use proptest::prelude::*;
use serde::{Deserialize, Serialize};
use serde_json::json;
use utils::singleflight::{Group, SingleflightError};

use crate::engine::{Case, Ctx};

pub const RULE: &str = "scripts of events {Call(key in 3 keys, outcome Ok / Err / Panic, gate in 4 gates, yields before the call, optionally a second call by the same caller straight after the first returns), Release(gate), Yield(n)} with 1-12 callers; every supplied task logs its start, waits for its gate and returns its outcome tagged with the caller id; remaining gates are released at the end. Mode A: current-thread runtime with a paused (virtual) clock and a generated plan of cooperative yields at three guarded points inside Group::work (after the call-map lookup, after the result future is created, before the owner removes the call) - deterministic, and a caller that would wait forever trips a 1-hour virtual timeout as soon as the runtime is idle. Mode B: the same scripts on a 2-4 worker multi-thread runtime (real parallelism); there a caller counts as waiting forever only by relative progress - every gate released, every started task finished, and the same runtime completed several rounds of 500 fresh tasks and 10 fresh flights while the caller still had not returned - never by a wall-clock limit (a plain time limit is inconclusive). Oracle over the event log (logical timestamps): tasks started = calls reporting ownership; an owner's own task started exactly once and a non-owner's never; an owner receives its own value / error / join error; every non-owner result names an owner of the same key whose call interval overlaps its own and whose outcome kind matches (value id, error payload, or panic notification); the executions of two tasks of one key never overlap in time; all callers return. Stream 'crowd' (paused clock, current-thread runtime): one flight joined by 1 to 140 000 callers before its task is released, the count drawn with a bias to 2^8, 2^16, 2^17 and their neighbours (the widths a counter of waiters can be kept in), task outcome Ok / Err / Panic, up to 2 bystander callers on another key; oracle: the task ran once, every caller returns (1-hour virtual timeout on an idle runtime otherwise), exactly one owner, every caller has the owner's outcome, bystanders their own, and a later call starts a new flight; non-trivial there = >= 2 callers. non-trivial = script in which >= 2 waiters joined one flight and a later call on the same key started a new flight; distinct by fingerprint of the script";

pub const ASSUMPTIONS: &[&str] = &[
    "callers are not cancelled while waiting (the property does not cover dropped callers)",
    "mode A explores the interleavings a cooperative single-threaded scheduler produces for the script; mode B samples OS schedules",
];

#[derive(Clone, Debug, Serialize, Deserialize, PartialEq)]
pub enum Ev {
    Call {
        key: u8,
        outcome: u8,
        gate: u8,
        pre_yields: u8,
        /// the same caller immediately calls again on the same key: (outcome, gate)
        #[serde(default)]
        again: Option<(u8, u8)>,
    },
    Release(u8),
    Yield(u8),
}

#[derive(Clone, Debug, Serialize, Deserialize)]
pub struct Script {
    pub events: Vec<Ev>,
    pub workers: u8,
    /// generated yields at the guarded points inside Group::work (mode A only)
    #[serde(default)]
    pub yield_plan: Vec<u8>,
}

fn ev_strategy() -> impl Strategy<Value = Ev> {
    prop_oneof![
        6 => (0u8..3, prop_oneof![3 => Just(0u8), 2 => Just(1u8), 1 => Just(2u8)], 0u8..4, 0u8..3, prop_oneof![3 => Just(None), 1 => (0u8..3, 0u8..4).prop_map(Some)])
            .prop_map(|(key, outcome, gate, pre_yields, again)| Ev::Call { key, outcome, gate, pre_yields, again }),
        3 => (0u8..4).prop_map(Ev::Release),
        3 => (0u8..5).prop_map(Ev::Yield),
    ]
}

fn script_strategy() -> impl Strategy<Value = Script> {
    (proptest::collection::vec(ev_strategy(), 1..30), 2u8..=4, proptest::collection::vec(prop_oneof![3 => Just(0u8), 2 => 1u8..4], 0..12)).prop_map(|(mut events, workers, yield_plan)| {
        // at most 12 callers
        let mut n = 0;
        events.retain(|e| {
            if matches!(e, Ev::Call { .. }) {
                n += 1;
                n <= 12
            } else {
                true
            }
        });
        Script { events, workers, yield_plan }
    })
}

#[derive(Clone, Debug)]
struct CallLog {
    key: u8,
    outcome: u8,
    issued: u64,
    returned: Option<u64>,
    task_starts: u32,
    task_start: Option<u64>,
    task_end: Option<u64>,
    result: Option<(Result<u64, Res>, bool)>,
}

#[derive(Clone, Debug, PartialEq)]
enum Res {
    Internal(String),
    WaiterInternal(String),
    Join(String),
    OwnerPanicked,
    Other(String),
}

struct Shared {
    clock: AtomicU64,
    calls: Mutex<Vec<CallLog>>,
}

impl Shared {
    fn tick(&self) -> u64 {
        self.clock.fetch_add(1, Ordering::SeqCst)
    }
}

async fn run_script(script: &Script, virtual_clock: bool) -> Result<Vec<CallLog>, String> {
    let group: Arc<Group<u64, String>> = Arc::new(Group::new());
    let shared = Arc::new(Shared { clock: AtomicU64::new(0), calls: Mutex::new(Vec::new()) });
    let gates: Vec<tokio::sync::watch::Sender<bool>> = (0..4).map(|_| tokio::sync::watch::channel(false).0).collect();
    let mut handles = Vec::new();
    for ev in &script.events {
        match ev {
            Ev::Yield(n) => {
                for _ in 0..*n {
                    tokio::task::yield_now().await;
                }
            },
            Ev::Release(g) => {
                let _ = gates[*g as usize % 4].send(true);
            },
            Ev::Call { key, outcome, gate, pre_yields, again } => {
                let mut calls: Vec<(usize, u8, tokio::sync::watch::Receiver<bool>)> = Vec::new();
                for (outcome, gate) in std::iter::once((*outcome, *gate)).chain(again.iter().copied()) {
                    let mut c = shared.calls.lock().unwrap();
                    c.push(CallLog { key: *key, outcome, issued: 0, returned: None, task_starts: 0, task_start: None, task_end: None, result: None });
                    calls.push((c.len() - 1, outcome, gates[gate as usize % 4].subscribe()));
                }
                let group = group.clone();
                let shared2 = shared.clone();
                let (key, pre) = (*key, *pre_yields);
                handles.push(tokio::spawn(async move {
                    for _ in 0..pre {
                        tokio::task::yield_now().await;
                    }
                    for (id, outcome, mut rx) in calls {
                        let shared3 = shared2.clone();
                        let task = async move {
                            let t = shared3.tick();
                            {
                                let mut c = shared3.calls.lock().unwrap();
                                c[id].task_starts += 1;
                                c[id].task_start = Some(t);
                            }
                            // wait for the gate
                            while !*rx.borrow() {
                                if rx.changed().await.is_err() {
                                    break;
                                }
                            }
                            let t = shared3.tick();
                            shared3.calls.lock().unwrap()[id].task_end = Some(t);
                            match outcome % 3 {
                                0 => Ok(id as u64),
                                1 => Err(format!("E<{id}>")),
                                _ => panic!("task {id} panics"),
                            }
                        };
                        let t = shared2.tick();
                        shared2.calls.lock().unwrap()[id].issued = t;
                        let (res, owner) = group.work(&format!("key{key}"), task).await;
                        let t = shared2.tick();
                        let res = res.map_err(|e| match e {
                            SingleflightError::InternalError(s) => Res::Internal(s),
                            SingleflightError::WaiterInternalError(s) => Res::WaiterInternal(s),
                            SingleflightError::JoinError(s) => Res::Join(s),
                            SingleflightError::OwnerPanicked => Res::OwnerPanicked,
                            other => Res::Other(format!("{other:?}")),
                        });
                        let mut c = shared2.calls.lock().unwrap();
                        c[id].returned = Some(t);
                        c[id].result = Some((res, owner));
                    }
                }));
            },
        }
    }
    // release everything and wait for all callers
    for _ in 0..3 {
        tokio::task::yield_now().await;
    }
    for g in &gates {
        let _ = g.send(true);
    }
    let all = async {
        for h in handles {
            let _ = h.await;
        }
    };
    if virtual_clock {
        if tokio::time::timeout(Duration::from_secs(3600), all).await.is_err() {
            let c = shared.calls.lock().unwrap();
            let stuck: Vec<usize> = c.iter().enumerate().filter(|(_, l)| l.returned.is_none()).map(|(i, _)| i).collect();
            return Err(format!("HANG callers {stuck:?} never returned although every gate was released"));
        }
    } else {
        // Real threads: liveness is judged by *relative progress*, not by a wall-clock limit. Every gate is
        // released, so every remaining caller is runnable or one wake-up away from it. If the same runtime
        // completes several rounds of freshly spawned tasks and fresh flights on other keys while a caller
        // still has not returned, that caller is parked for good (tokio polls a woken task before an
        // unbounded number of later-spawned ones). A slow machine only makes this take longer.
        tokio::pin!(all);
        let mut rounds_without_progress = 0;
        let mut last_pending = usize::MAX;
        let started = std::time::Instant::now();
        loop {
            if tokio::time::timeout(Duration::from_millis(1500), &mut all).await.is_ok() {
                break;
            }
            // probe round
            let mut probes = Vec::new();
            for i in 0..500u32 {
                let g = group.clone();
                probes.push(tokio::spawn(async move {
                    tokio::task::yield_now().await;
                    if i % 50 == 0 {
                        let _ = g.work(&format!("probe-{i}"), async move { Ok::<u64, String>(i as u64) }).await;
                    }
                }));
            }
            for p in probes {
                let _ = p.await;
            }
            let pending: Vec<usize> = shared.calls.lock().unwrap().iter().enumerate().filter(|(_, l)| l.returned.is_none()).map(|(i, _)| i).collect();
            if pending.is_empty() {
                continue;
            }
            if pending.len() == last_pending {
                rounds_without_progress += 1;
            } else {
                rounds_without_progress = 0;
                last_pending = pending.len();
            }
            if rounds_without_progress >= 4 {
                let unfinished_tasks = shared.calls.lock().unwrap().iter().filter(|l| l.task_start.is_some() && l.task_end.is_none()).count();
                if unfinished_tasks == 0 {
                    return Err(format!(
                        "HANG-CONFIRMED callers {pending:?} have not returned although every gate was released, every started task has finished and the runtime completed {} probe rounds (500 fresh tasks and 10 fresh flights each) meanwhile",
                        rounds_without_progress + 1
                    ));
                }
            }
            if started.elapsed() > Duration::from_secs(300) {
                return Err(format!("TIMEOUT callers {pending:?} pending after 300 s without a confirmed hang"));
            }
        }
    }
    let c = shared.calls.lock().unwrap().clone();
    Ok(c)
}

struct Verdict {
    waiters_in_one_flight: usize,
    reflight: bool,
    owners: usize,
}

fn judge(log: &[CallLog]) -> Result<Verdict, String> {
    let mut owners = 0;
    let mut started = 0;
    for (i, c) in log.iter().enumerate() {
        let Some((res, owner)) = &c.result else { return Err(format!("[sig:c20-no-result] caller {i} has no result")) };
        started += c.task_starts;
        if *owner {
            owners += 1;
            if c.task_starts != 1 {
                return Err(format!("[sig:c20-owner-task-count] caller {i} reports ownership but its task was started {} times", c.task_starts));
            }
            match (c.outcome % 3, res) {
                (0, Ok(v)) if *v == i as u64 => {},
                (1, Err(Res::Internal(s))) | (1, Err(Res::WaiterInternal(s))) if s.contains(&format!("E<{i}>")) => {},
                (2, Err(Res::Join(_))) | (2, Err(Res::OwnerPanicked)) => {},
                _ => return Err(format!("[sig:c20-owner-result] owner {i} (outcome kind {}) received {:?}", c.outcome % 3, res)),
            }
        } else if c.task_starts != 0 {
            return Err(format!("[sig:c20-waiter-task-ran] caller {i} was not the owner, yet its task was started"));
        }
    }
    if started as usize != owners {
        return Err(format!("[sig:c20-task-count] {started} tasks were started for {owners} owning calls"));
    }
    // one task per key at a time: a flight's call stays registered from before its task starts until after it
    // ends, so every call made in between joins it - two executions for one key never overlap
    let running: Vec<(usize, u8, u64, u64)> = log.iter().enumerate().filter_map(|(i, c)| c.task_start.map(|s| (i, c.key, s, c.task_end.unwrap_or(u64::MAX)))).collect();
    for a in &running {
        for b in &running {
            if a.0 < b.0 && a.1 == b.1 && a.2 <= b.3 && b.2 <= a.3 {
                return Err(format!(
                    "[sig:c20-tasks-overlap] the tasks of callers {} and {} (same key {}) ran at the same time: [{}, {}] and [{}, {}] - a call made while a flight was in progress started its own task",
                    a.0, b.0, a.1, a.2, a.3, b.2, b.3
                ));
            }
        }
    }
    // every non-owner result names an overlapping owner of the same key with a matching outcome
    let mut waiters_of: std::collections::BTreeMap<usize, usize> = Default::default();
    for (i, c) in log.iter().enumerate() {
        let (res, owner) = c.result.as_ref().unwrap();
        if *owner {
            continue;
        }
        let overlaps = |j: usize| -> bool {
            let o = &log[j];
            o.result.as_ref().map(|r| r.1).unwrap_or(false) && o.key == c.key && j != i && o.issued <= c.returned.unwrap() && c.issued <= o.returned.unwrap()
        };
        let found: Option<usize> = match res {
            Ok(v) => {
                let j = *v as usize;
                if j < log.len() && overlaps(j) && log[j].outcome % 3 == 0 {
                    Some(j)
                } else {
                    None
                }
            },
            Err(Res::WaiterInternal(s)) | Err(Res::Internal(s)) => (0..log.len()).find(|j| overlaps(*j) && log[*j].outcome % 3 == 1 && s.contains(&format!("E<{j}>"))),
            Err(Res::OwnerPanicked) => (0..log.len()).find(|j| overlaps(*j) && log[*j].outcome % 3 == 2),
            Err(other) => return Err(format!("[sig:c20-waiter-result] waiter {i} received {other:?}")),
        };
        match found {
            Some(j) => *waiters_of.entry(j).or_default() += 1,
            None => {
                return Err(format!(
                    "[sig:c20-waiter-unmatched] waiter {i} (key {}, issued {}, returned {:?}) received {:?}, which is not the outcome of any owner of that key whose call overlaps it; calls: {:?}",
                    c.key,
                    c.issued,
                    c.returned,
                    res,
                    log.iter().enumerate().map(|(k, l)| (k, l.key, l.outcome % 3, l.issued, l.returned, l.result.as_ref().map(|r| r.1))).collect::<Vec<_>>()
                ))
            },
        }
    }
    let max_waiters = waiters_of.values().copied().max().unwrap_or(0);
    // a later call on the same key started a new flight
    let mut reflight = false;
    for (j, n) in &waiters_of {
        if *n >= 2 {
            let o = &log[*j];
            if log.iter().enumerate().any(|(k, l)| k != *j && l.key == o.key && l.result.as_ref().map(|r| r.1).unwrap_or(false) && l.issued > o.returned.unwrap()) {
                reflight = true;
            }
        }
    }
    Ok(Verdict { waiters_in_one_flight: max_waiters, reflight, owners })
}

fn labels(info: &mut Case, script: &Script, v: &Verdict) {
    info.nontrivial_if(v.waiters_in_one_flight >= 2 && v.reflight);
    if v.waiters_in_one_flight >= 2 {
        info.label(">=2-waiters-in-one-flight");
    }
    if v.reflight {
        info.label("new-flight-after-finished-flight");
    }
    for e in &script.events {
        if let Ev::Call { outcome, again, .. } = e {
            info.label(["call:ok", "call:err", "call:panic"][*outcome as usize % 3]);
            if again.is_some() {
                info.label("caller-calls-twice-back-to-back");
            }
        }
    }
    info.note = Some(json!({"events": script.events.len(), "owners": v.owners, "max_waiters_in_a_flight": v.waiters_in_one_flight}));
}

fn mode_a(script: &Script, info: &mut Case) -> Result<(), String> {
    let rt = tokio::runtime::Builder::new_current_thread().enable_all().start_paused(true).build().map_err(|e| format!("[sig:infra] runtime: {e}"))?;
    utils::verif_hooks::set_yield_plan(Some(script.yield_plan.clone()));
    let r = rt.block_on(run_script(script, true));
    utils::verif_hooks::set_yield_plan(None);
    let log = r.map_err(|e| format!("[sig:c20-hang] {e}"))?;
    if !script.yield_plan.is_empty() {
        info.label("internal-yield-plan");
    }
    let v = judge(&log)?;
    labels(info, script, &v);
    Ok(())
}

fn mode_b(script: &Script, info: &mut Case) -> Result<(), String> {
    let rt = tokio::runtime::Builder::new_multi_thread()
        .worker_threads(script.workers.clamp(2, 4) as usize)
        .enable_all()
        .build()
        .map_err(|e| format!("[sig:infra] runtime: {e}"))?;
    for _rep in 0..3 {
        let s2 = script.clone();
        match rt.block_on(async move { tokio::spawn(async move { run_script(&s2, false).await }).await }) {
            Ok(Ok(log)) => {
                let v = judge(&log)?;
                labels(info, script, &v);
            },
            Ok(Err(e)) if e.starts_with("HANG-CONFIRMED") => {
                return Err(format!("[sig:c20-hang] multi-thread runtime: {e}"));
            },
            Ok(Err(e)) => {
                // no confirmed hang, only a time limit: inconclusive, not a violation
                return Err(format!("[sig:infra] mode B {e}"));
            },
            Err(e) => return Err(format!("[sig:infra] mode B join error {e}")),
        }
    }
    info.label(format!("workers={}", script.workers.clamp(2, 4)));
    Ok(())
}

// ---- stream 'crowd': one flight joined by very many callers (counts around the u8 / u16 / 2^17 widths) ----

#[derive(Clone, Debug, Serialize, Deserialize)]
pub struct Crowd {
    pub callers: u32,
    pub outcome: u8,
    /// callers on a second key with its own task (must not be affected)
    pub bystanders: u8,
    /// yields between spawning the first half and the second half of the callers
    pub split_yields: u8,
}

fn crowd_strategy() -> impl Strategy<Value = Crowd> {
    (
        // the widths a waiter counter could be kept in (u8, u16) and the next multiple, each -1 / exact / +1
        prop_oneof![
            4 => (prop_oneof![Just(256u32), Just(65_536u32), Just(131_072u32)], 0u32..3).prop_map(|(b, d)| b + d - 1),
            2 => crate::gen::edge_u32(140_000),
            2 => 1u32..300,
        ],
        0u8..3,
        0u8..3,
        0u8..3,
    ).prop_map(|(callers, outcome, bystanders, split_yields)| Crowd { callers: callers.max(1), outcome, bystanders, split_yields })
}

fn crowd(c: &Crowd, info: &mut Case) -> Result<(), String> {
    use std::sync::atomic::AtomicU32;
    let rt = tokio::runtime::Builder::new_current_thread().enable_all().start_paused(true).build().map_err(|e| format!("[sig:infra] runtime: {e}"))?;
    let c = c.clone();
    let n = c.callers as usize;
    let verdict: Result<(), String> = rt.block_on(async move {
        let group: Arc<Group<u64, String>> = Arc::new(Group::new());
        let gate = tokio::sync::watch::channel(false).0;
        let started = Arc::new(AtomicU32::new(0));
        let started_by = Arc::new(AtomicU64::new(u64::MAX));
        let returned = Arc::new(AtomicU32::new(0));
        let mut handles = Vec::with_capacity(n + 4);
        let spawn_caller = |id: u64, key: &'static str, outcome: u8| {
            let (group, mut rx, started, started_by, returned) = (group.clone(), gate.subscribe(), started.clone(), started_by.clone(), returned.clone());
            tokio::spawn(async move {
                let main = key == "crowd";
                let task = async move {
                    if main {
                        started.fetch_add(1, Ordering::SeqCst);
                        started_by.store(id, Ordering::SeqCst);
                    }
                    while !*rx.borrow() {
                        if rx.changed().await.is_err() {
                            break;
                        }
                    }
                    match outcome % 3 {
                        0 => Ok(id),
                        1 => Err(format!("E<{id}>")),
                        _ => panic!("task {id} panics"),
                    }
                };
                let (res, owner) = group.work(key, task).await;
                if main {
                    returned.fetch_add(1, Ordering::SeqCst);
                }
                (id, res.map_err(|e| format!("{e:?}")), owner)
            })
        };
        for i in 0..n {
            if i == n / 2 {
                for _ in 0..c.split_yields {
                    tokio::task::yield_now().await;
                }
            }
            handles.push(spawn_caller(i as u64, "crowd", c.outcome));
        }
        for b in 0..c.bystanders {
            handles.push(spawn_caller(1_000_000 + b as u64, "bystander", 0));
        }
        // let every caller run until it is parked on the flight
        for _ in 0..4 {
            tokio::task::yield_now().await;
        }
        let _ = gate.send(true);
        let all = async {
            let mut out = Vec::with_capacity(handles.len());
            for h in handles {
                out.push(h.await);
            }
            out
        };
        let out = match tokio::time::timeout(Duration::from_secs(3600), all).await {
            Ok(o) => o,
            Err(_) => {
                return Err(format!(
                    "[sig:c20-hang] {} of {n} callers of one flight never returned although its task (started {} time(s)) was released and the runtime went idle",
                    n - returned.load(Ordering::SeqCst) as usize,
                    started.load(Ordering::SeqCst)
                ));
            },
        };
        if started.load(Ordering::SeqCst) != 1 {
            return Err(format!("[sig:c20-task-count] {n} callers joined one flight before its task was released, but {} tasks were started", started.load(Ordering::SeqCst)));
        }
        let owner_id = started_by.load(Ordering::SeqCst);
        let mut owners = 0;
        for r in out {
            let (id, res, owner) = r.map_err(|e| format!("[sig:c20-caller-panicked] a caller task itself failed: {e}"))?;
            if id >= 1_000_000 {
                match res {
                    Ok(v) if v >= 1_000_000 => {},
                    other => return Err(format!("[sig:c20-cross-key] bystander {id} on another key received {other:?}")),
                }
                continue;
            }
            if owner {
                owners += 1;
                if id != owner_id {
                    return Err(format!("[sig:c20-owner-mismatch] caller {id} reports ownership but the task of caller {owner_id} ran"));
                }
            }
            match (c.outcome % 3, &res) {
                (0, Ok(v)) if *v == owner_id => {},
                (1, Err(e)) if e.contains(&format!("E<{owner_id}>")) || !owner => {},
                (2, Err(_)) => {},
                _ => return Err(format!("[sig:c20-wrong-result] caller {id} (owner: {owner}) of a flight whose task (of caller {owner_id}, outcome kind {}) finished received {res:?}", c.outcome % 3)),
            }
        }
        if owners != 1 {
            return Err(format!("[sig:c20-owner-count] {owners} callers of one flight report ownership"));
        }
        // the flight is over: a later call starts a new one
        let fresh = Arc::new(AtomicU32::new(0));
        let f2 = fresh.clone();
        let again = group.work("crowd", async move {
            f2.fetch_add(1, Ordering::SeqCst);
            Ok(77u64)
        });
        match tokio::time::timeout(Duration::from_secs(3600), again).await {
            Err(_) => return Err("[sig:c20-hang] a call made after every caller of the finished flight returned never returns".to_string()),
            Ok((r, own)) => {
                if fresh.load(Ordering::SeqCst) != 1 || !own || r.as_ref().ok() != Some(&77) {
                    return Err(format!("[sig:c20-stale-flight] a call made after the flight finished did not run its own task (ran {}, owner {own}, result {:?})", fresh.load(Ordering::SeqCst), r.map_err(|e| format!("{e:?}"))));
                }
            },
        }
        Ok(())
    });
    verdict?;
    info.label(match n {
        0..=255 => "crowd<=255",
        256..=65_534 => "crowd-256..65534",
        65_535..=65_537 => "crowd-65535..65537",
        _ => "crowd>65537",
    });
    info.label(format!("crowd-outcome-{}", c.outcome % 3));
    info.nontrivial_if(n >= 2);
    info.note = Some(json!({"callers": n, "outcome": c.outcome % 3, "bystanders": c.bystanders}));
    Ok(())
}

pub fn run(ctx: &Ctx) {
    ctx.explore("virtual-clock", ctx.tier.pick(100_000, 2_000_000), 16, script_strategy, mode_a);
    ctx.explore("multi-thread", ctx.tier.pick(3_000, 60_000), 4, script_strategy, mode_b);
    ctx.explore("crowd", ctx.tier.pick(160, 4_000), 16, crowd_strategy, crowd);
}
