//! C13 Chunk-cache accounting is exact and the capacity bound holds.

use proptest::prelude::*;
use serde::{Deserialize, Serialize};
use serde_json::json;

use crate::cachex::{check_accounting, item_len, open, puts_overlap, run_batch, Op, N_CHUNKS};
use crate::engine::{Case, Ctx};

pub const RULE: &str = "stream 'random': 1-3 batches of 2-3 threads x 1-5 operations (puts of equal / nested / disjoint / overlapping chunk ranges over <= 4 keys, gets), capacity from 'exactly the largest item of the case' and 'fits two items' to ample, each batch run under the schedule controller (schedule points outside the state lock after find-match, after the file write, after the commit, before every deferred deletion, inside item removal) with a generated schedule and a seeded eviction choice, optionally re-opening the directory with the same capacity between batches. stream 'exhaustive': four canonical pairs (identical put || identical put, put || evicting put, get || subsuming put, get after external delete || put) with ALL grant sequences enumerated. Oracle at every quiescent point: num_items() = number of tracked entries, total_bytes() = sum of their lengths, every cache-item-named file on disk is tracked, after reading every entry back tracked entries == files on disk and totals == file sizes, after every successful put total_bytes <= capacity. non-trivial = a schedule in which two puts overlapped in time (another thread ran put steps between one put's find-match and its commit); distinct by fingerprint of (operations, schedule)";

pub const ASSUMPTIONS: &[&str] = &[
    "interleavings are explored at the granularity of the schedule points (every file-system effect and lock acquisition is separated by a point), not of instructions",
    "no single item is larger than the capacity",
    "puts for one key are mutually consistent (content-addressed xorbs)",
];

#[derive(Clone, Debug, Serialize, Deserialize)]
pub struct Batch {
    pub threads: Vec<Vec<Op>>,
    pub schedule: Vec<u8>,
    pub reopen_after: bool,
}

#[derive(Clone, Debug, Serialize, Deserialize)]
pub struct C13Case {
    pub cap_kind: u8,
    pub cap_mag: u16,
    pub batches: Vec<Batch>,
    pub evict_seed: u64,
}

fn op_strategy() -> impl Strategy<Value = Op> {
    // few keys and few distinct ranges so that identical / nested puts are common
    prop_oneof![
        6 => (0u8..2, prop_oneof![Just(0u8), Just(2u8), Just(5u8)], prop_oneof![Just(2u8), Just(4u8), Just(8u8)]).prop_map(|(key, a, len)| Op::Put { key, a, len }),
        2 => (0u8..4, 0u8..14, 0u8..14).prop_map(|(key, a, len)| Op::Put { key, a, len }),
        3 => (0u8..2, prop_oneof![Just(0u8), Just(2u8), Just(3u8), Just(5u8)], 0u8..6).prop_map(|(key, a, len)| Op::Get { key, a, len }),
    ]
}

fn batch_strategy() -> impl Strategy<Value = Batch> {
    (proptest::collection::vec(proptest::collection::vec(op_strategy(), 1..5), 2..=3), proptest::collection::vec(any::<u8>(), 0..40), proptest::bool::weighted(0.3))
        .prop_map(|(threads, schedule, reopen_after)| Batch { threads, schedule, reopen_after })
}

fn case_strategy() -> impl Strategy<Value = C13Case> {
    (0u8..4, any::<u16>(), proptest::collection::vec(batch_strategy(), 1..=3), any::<u64>()).prop_map(|(cap_kind, cap_mag, batches, evict_seed)| C13Case { cap_kind, cap_mag, batches, evict_seed })
}

pub fn capacity_of(kind: u8, mag: u16) -> u64 {
    let max_item = item_len(0, 0, N_CHUNKS).max(item_len(1, 0, N_CHUNKS)).max(item_len(2, 0, N_CHUNKS)).max(item_len(3, 0, N_CHUNKS)) + 8;
    match kind % 3 {
        0 => max_item + (mag as u64 % max_item),
        1 => 2 * max_item + (mag as u64 % (4 * max_item)),
        _ => 1 << 20,
    }
}

/// capacity of a generated case; kind 3 = exactly the length of the largest item the case puts (that item
/// fills the cache completely and no item is larger than the capacity)
fn case_capacity(c: &C13Case) -> u64 {
    if c.cap_kind % 4 == 3 {
        let largest = c
            .batches
            .iter()
            .flat_map(|b| b.threads.iter().flatten())
            .filter(|op| matches!(op, Op::Put { .. }))
            .map(|op| {
                let (k, a, b) = op.range();
                item_len(k, a, b)
            })
            .max();
        if let Some(l) = largest {
            return l;
        }
    }
    capacity_of(c.cap_kind % 4 % 3, c.cap_mag)
}

fn random_oracle(c: &C13Case, info: &mut Case) -> Result<(), String> {
    let tmp = tempfile::Builder::new().prefix("xvc-").tempdir_in(crate::engine::work_dir()).map_err(|e| format!("[sig:infra] tempdir: {e}"))?;
    let root = tmp.path().join("cache");
    let capacity = case_capacity(c);
    let mut cache = open(&root, capacity).map_err(|e| format!("[sig:c13-initialize] {e}"))?;
    let mut overlap = false;
    let mut evictions = false;
    for (bi, b) in c.batches.iter().enumerate() {
        let before = cache.num_items().unwrap_or(0);
        let r = run_batch(&cache, Some(capacity), &b.threads, &b.schedule, c.evict_seed ^ bi as u64);
        if let Some(v) = r.violation {
            return Err(v);
        }
        if puts_overlap(&r.trace) {
            overlap = true;
        }
        let puts_ok = r.outcomes.iter().flatten().filter(|o| matches!(o, crate::cachex::OpOutcome::PutOk)).count();
        check_accounting(&cache, &root, capacity, false, true).map_err(|e| format!("{e} (after batch {bi}, schedule {:?})", &r.trace))?;
        let (n_after, _) = check_accounting(&cache, &root, capacity, true, true).map_err(|e| format!("{e} (after batch {bi} with read-back)"))?;
        if n_after < before + puts_ok && capacity < (1 << 20) {
            evictions = true;
        }
        if b.reopen_after {
            drop(cache);
            cache = open(&root, capacity).map_err(|e| format!("[sig:c13-initialize] re-open: {e}"))?;
            check_accounting(&cache, &root, capacity, true, false).map_err(|e| format!("{e} (after re-open following batch {bi})"))?;
            info.label("reopen");
        }
    }
    info.nontrivial_if(overlap);
    if overlap {
        info.label("puts-overlapped");
    }
    if evictions {
        info.label("entries-evicted-or-subsumed");
    }
    info.label(format!("capacity-kind={}", ["tight", "medium", "ample", "exactly-the-largest-item"][c.cap_kind as usize % 4]));
    Ok(())
}

// ---------------------------------------------------------------------------------------------

#[derive(Clone, Debug, Serialize, Deserialize)]
pub struct Exhaustive {
    pub scenario: u8,
    pub schedule: Vec<u8>,
}

struct Scenario {
    name: &'static str,
    capacity: u64,
    pre: Vec<Op>,
    delete_after_pre: bool,
    threads: Vec<Vec<Op>>,
}

fn scenarios() -> Vec<Scenario> {
    let tight = capacity_of(0, 0);
    vec![
        Scenario {
            name: "identical put || identical put",
            capacity: 1 << 20,
            pre: vec![],
            delete_after_pre: false,
            threads: vec![vec![Op::Put { key: 0, a: 2, len: 3 }], vec![Op::Put { key: 0, a: 2, len: 3 }]],
        },
        Scenario {
            name: "put || evicting put",
            capacity: tight,
            pre: vec![Op::Put { key: 1, a: 0, len: 5 }, Op::Put { key: 2, a: 0, len: 5 }],
            delete_after_pre: false,
            threads: vec![vec![Op::Put { key: 0, a: 0, len: 7 }], vec![Op::Put { key: 3, a: 0, len: 8 }]],
        },
        Scenario {
            name: "get || subsuming put",
            capacity: 1 << 20,
            pre: vec![Op::Put { key: 0, a: 2, len: 2 }],
            delete_after_pre: false,
            threads: vec![vec![Op::Get { key: 0, a: 2, len: 2 }], vec![Op::Put { key: 0, a: 0, len: 8 }]],
        },
        Scenario {
            name: "get after external delete || put",
            capacity: 1 << 20,
            pre: vec![Op::Put { key: 0, a: 2, len: 2 }],
            delete_after_pre: true,
            threads: vec![vec![Op::Get { key: 0, a: 2, len: 2 }], vec![Op::Put { key: 0, a: 2, len: 2 }]],
        },
        Scenario {
            name: "three identical puts",
            capacity: 1 << 20,
            pre: vec![],
            delete_after_pre: false,
            threads: vec![vec![Op::Put { key: 0, a: 1, len: 1 }], vec![Op::Put { key: 0, a: 1, len: 1 }], vec![Op::Put { key: 0, a: 1, len: 1 }]],
        },
    ]
}

fn run_exhaustive_one(sc: &Scenario, schedule: &[u8]) -> Result<(Vec<usize>, bool), String> {
    let tmp = tempfile::Builder::new().prefix("xvc-").tempdir_in(crate::engine::work_dir()).map_err(|e| format!("[sig:infra] tempdir: {e}"))?;
    let root = tmp.path().join("cache");
    let cache = open(&root, sc.capacity).map_err(|e| format!("[sig:c13-initialize] {e}"))?;
    for op in &sc.pre {
        crate::cachex::apply(&cache, op, Some(sc.capacity))?;
    }
    if sc.delete_after_pre {
        for (dir, name, _) in crate::cachex::list_files(&root) {
            let _ = std::fs::remove_file(root.join(dir).join(name));
        }
    }
    let r = run_batch(&cache, Some(sc.capacity), &sc.threads, schedule, 42);
    if let Some(v) = r.violation {
        return Err(format!("{v} (scenario '{}', grants {:?})", sc.name, r.trace));
    }
    check_accounting(&cache, &root, sc.capacity, false, true).map_err(|e| format!("{e} (scenario '{}', grants {:?})", sc.name, r.trace))?;
    check_accounting(&cache, &root, sc.capacity, true, true).map_err(|e| format!("{e} (scenario '{}' with read-back, grants {:?})", sc.name, r.trace))?;
    Ok((r.options, puts_overlap(&r.trace)))
}

fn exhaustive_oracle(c: &Exhaustive, info: &mut Case) -> Result<(), String> {
    let scs = scenarios();
    let sc = &scs[c.scenario as usize % scs.len()];
    let (_, overlap) = run_exhaustive_one(sc, &c.schedule)?;
    info.nontrivial_if(overlap);
    info.label(format!("exhaustive:{}", sc.name));
    Ok(())
}

/// enumerate every grant sequence of a scenario (stateless depth-first search)
fn all_schedules(sc_idx: usize, limit: usize) -> (Vec<Exhaustive>, bool) {
    let scs = scenarios();
    let sc = &scs[sc_idx];
    let mut out = Vec::new();
    let mut sched: Vec<u8> = Vec::new();
    loop {
        // discover the option counts along this schedule (a dry execution; the oracle run follows in enumerate)
        let options = match run_exhaustive_one(sc, &sched) {
            Ok((o, _)) => o,
            Err(_) => {
                // the violating schedule itself is part of the enumeration; record it and stop extending
                out.push(Exhaustive { scenario: sc_idx as u8, schedule: sched.clone() });
                return (out, false);
            },
        };
        let mut full: Vec<u8> = sched.clone();
        full.resize(options.len(), 0);
        out.push(Exhaustive { scenario: sc_idx as u8, schedule: full.clone() });
        if out.len() >= limit {
            return (out, false);
        }
        // next: increment the last incrementable position
        let mut p = full.len();
        let mut next = None;
        while p > 0 {
            p -= 1;
            if (full[p] as usize) + 1 < options[p] {
                let mut n = full[..=p].to_vec();
                n[p] += 1;
                next = Some(n);
                break;
            }
        }
        match next {
            Some(n) => sched = n,
            None => return (out, true),
        }
    }
}

pub fn run(ctx: &Ctx) {
    let mut complete = true;
    let mut total = 0;
    if ctx.replay.is_none() {
        for i in 0..scenarios().len() {
            let limit = ctx.tier.pick(1500, 60_000);
            let (items, done) = all_schedules(i, limit);
            complete &= done;
            total += items.len();
            ctx.enumerate("exhaustive", items, exhaustive_oracle);
        }
        ctx.add_extra("exhaustive_schedules", json!(total));
        ctx.add_extra("exhaustive_complete_for_all_canonical_scenarios", json!(complete));
    } else {
        ctx.enumerate("exhaustive", Vec::<Exhaustive>::new(), exhaustive_oracle);
    }
    ctx.explore("random", ctx.tier.pick(3_000, 120_000), 8, case_strategy, random_oracle);
}
