//! C04 Chunking is a deterministic, content-defined, bounded function of the stream.

use deduplication::Chunker;
use proptest::prelude::*;
use serde::{Deserialize, Serialize};
use serde_json::json;

use crate::engine::{Case, Ctx};
use crate::gen::bytes::{bytes_strategy, expand_all, Bytes};
use crate::refs::chunker::{self as rc, ChunkParams};
use crate::refs::merkle;

pub const RULE: &str = "streams = 1-4 concatenated byte recipes (random / constant / periodic / small-alphabet / float / text / literal) of total length 0..40*target, target in 2^7..2^16, fed through Chunker::next (honouring the consumed count), next_block, or next_block with the final flag, under a generated call partition (empty, 1-byte, sub-window, multi-chunk calls), then finish(); stream 'large-target': targets 2^14..2^27 (weight on 2^23..2^25, where the maximum chunk reaches the 2^24 / 2^25 / 2^26 widths) with 1-2 constant / short-period / random parts of up to 5.5*target each (capped at 48 MiB per part in the quick and 320 MiB in the thorough tier), same drivers and oracle; oracle = independent reference gear chunker + chunk-hash; non-trivial = target >= 1024 (skip-ahead live), >= 2 chunks, >= 1 hash-defined boundary, >= 3 calls and a call ending inside a chunk's skipped prefix; distinct = fingerprint of the generated case";

#[derive(Clone, Debug, Serialize, Deserialize)]
pub struct StreamCase {
    pub target_log2: u8,
    pub parts: Vec<Bytes>,
    /// (kind, magnitude) per call; remaining bytes go into one last call
    pub calls: Vec<(u8, u16)>,
    /// 0 = next(), 1 = next_block(.., false)+finish, 2 = next_block with is_final on the last call
    pub mode: u8,
}

#[derive(Clone, Debug, Serialize, Deserialize)]
pub struct LocalityCase {
    pub target_log2: u8,
    pub prefix_parts: Vec<Bytes>,
    /// how many natural chunks of the prefix stream to keep
    pub keep: u16,
    pub suffix_parts: Vec<Bytes>,
}

fn target_strategy() -> impl Strategy<Value = u8> + Clone {
    prop_oneof![2 => Just(7u8), 2 => Just(8u8), 2 => Just(9u8), 5 => Just(10u8), 4 => Just(11u8), 2 => Just(12u8), 1 => Just(13u8), 1 => Just(16u8)]
}

fn parts_strategy(target_log2: u8, max_parts: usize, max_mult: u32) -> impl Strategy<Value = Vec<Bytes>> {
    let t = 1u32 << target_log2;
    let hi = if target_log2 >= 16 { t * 3 } else { t * max_mult };
    proptest::collection::vec(prop_oneof![1 => bytes_strategy(0, 200), 4 => bytes_strategy(0, hi)], 0..=max_parts)
}

pub fn stream_strategy() -> impl Strategy<Value = StreamCase> {
    target_strategy()
        .prop_flat_map(|tl| {
            (Just(tl), parts_strategy(tl, 4, 10), proptest::collection::vec((0u8..8, any::<u16>()), 0..40), 0u8..3)
                .prop_map(|(target_log2, parts, calls, mode)| StreamCase { target_log2, parts, calls, mode })
        })
        .boxed()
}

pub fn locality_strategy() -> impl Strategy<Value = LocalityCase> {
    target_strategy()
        .prop_flat_map(|tl| {
            (Just(tl), parts_strategy(tl, 3, 8), any::<u16>(), parts_strategy(tl, 3, 8)).prop_map(|(target_log2, prefix_parts, keep, suffix_parts)| {
                LocalityCase { target_log2, prefix_parts, keep, suffix_parts }
            })
        })
        .boxed()
}

fn call_size(kind: u8, mag: u16, target: usize) -> usize {
    match kind {
        0 => 0,
        1 => 1,
        2 | 3 => 1 + (mag as usize % 130),
        4 | 5 => (mag as usize * 2 * target) >> 16,
        6 => (mag as usize * 6 * target) >> 16,
        _ => (mag as usize * 16 * target) >> 16,
    }
}

/// Drive the real chunker; returns chunk (hash, data) list plus the call end offsets.
fn drive(target: usize, data: &[u8], calls: &[(u8, u16)], mode: u8) -> Result<(Vec<deduplication::Chunk>, Vec<usize>), String> {
    let mut chunker = Chunker::new(target);
    let mut out = Vec::new();
    let mut pos = 0usize;
    let mut ends = Vec::new();
    let mut sizes: Vec<usize> = calls.iter().map(|(k, m)| call_size(*k, *m, target)).collect();
    sizes.push(usize::MAX);
    let n_calls = sizes.len();
    for (ci, sz) in sizes.into_iter().enumerate() {
        let end = pos.saturating_add(sz).min(data.len());
        let last_call = ci + 1 == n_calls;
        let block = &data[pos..end];
        match mode {
            0 => {
                let mut p = 0;
                loop {
                    let (c, used) = chunker.next(&block[p..], false);
                    if used > block.len() - p {
                        return Err(format!("[sig:c04-consumed-too-much] next() consumed {} of {} bytes", used, block.len() - p));
                    }
                    p += used;
                    match c {
                        Some(c) => out.push(c),
                        None => {
                            if p != block.len() {
                                return Err(format!("[sig:c04-no-chunk-partial] next() returned no chunk but consumed only {} of {}", p, block.len()));
                            }
                        },
                    }
                    if p == block.len() {
                        break;
                    }
                }
            },
            1 => out.extend(chunker.next_block(block, false)),
            _ => out.extend(chunker.next_block(block, last_call)),
        }
        pos = end;
        ends.push(pos);
        if last_call {
            break;
        }
    }
    if let Some(c) = chunker.finish() {
        out.push(c);
    }
    Ok((out, ends))
}

pub struct Observed {
    pub n_chunks: usize,
    pub hash_cuts: usize,
    pub max_cuts: usize,
    pub call_in_skip: bool,
    pub n_calls: usize,
}

pub fn check_stream(target: usize, data: &[u8], calls: &[(u8, u16)], mode: u8) -> Result<Observed, String> {
    let p = ChunkParams::default_for(target);
    let (chunks, call_ends) = drive(target, data, calls, mode)?;
    // (1) concatenation
    let mut cat = Vec::with_capacity(data.len());
    for c in &chunks {
        cat.extend_from_slice(&c.data);
    }
    if cat != data {
        let at = cat.iter().zip(data.iter()).position(|(a, b)| a != b).unwrap_or(cat.len().min(data.len()));
        return Err(format!("[sig:c04-concat] chunks do not concatenate to the input: {} vs {} bytes, first difference at {}", cat.len(), data.len(), at));
    }
    // (2) boundaries = reference
    let refb = rc::boundaries_flagged(data, &p);
    let mut got = Vec::new();
    let mut acc = 0;
    for c in &chunks {
        acc += c.data.len();
        got.push(acc);
    }
    let want: Vec<usize> = refb.iter().map(|x| x.0).collect();
    if got != want {
        let i = got.iter().zip(want.iter()).position(|(a, b)| a != b).unwrap_or(got.len().min(want.len()));
        return Err(format!(
            "[sig:c04-boundary] boundary #{i} differs from the reference rule: got {:?} want {:?} (target {target}, {} vs {} chunks)",
            got.get(i),
            want.get(i),
            got.len(),
            want.len()
        ));
    }
    // (4) bounds, (5) hashes; no empty chunk
    let n = chunks.len();
    for (i, c) in chunks.iter().enumerate() {
        let l = c.data.len();
        if l == 0 {
            return Err(format!("[sig:c04-empty-chunk] chunk {i} is empty"));
        }
        if l > p.max {
            return Err(format!("[sig:c04-max] chunk {i} has {l} bytes > maximum {}", p.max));
        }
        if i + 1 != n && l < p.min.saturating_sub(64).max(1) {
            return Err(format!("[sig:c04-min] non-final chunk {i} has {l} bytes < minimum-64 = {}", p.min.saturating_sub(64)));
        }
        let h: [u8; 32] = c.hash.into();
        if h != merkle::chunk_hash(&c.data) {
            return Err(format!("[sig:c04-hash] chunk {i} hash differs from the reference chunk hash"));
        }
    }
    // (3) equal to the one-shot chunking through the real chunker
    if !calls.is_empty() || mode != 1 {
        let one = Chunker::new(target).next_block(data, true);
        if one.len() != chunks.len() || one.iter().zip(chunks.iter()).any(|(a, b)| a != b) {
            return Err("[sig:c04-partition] chunking under the call partition differs from one-shot chunking".to_string());
        }
    }
    // classification
    let mut hash_cuts = 0;
    let mut max_cuts = 0;
    let mut prev = 0;
    let mut skip_zones = Vec::new();
    for (i, (e, nat)) in refb.iter().enumerate() {
        let l = e - prev;
        if *nat && l < p.max {
            hash_cuts += 1;
        }
        if *nat && l == p.max {
            max_cuts += 1;
        }
        let _ = i;
        skip_zones.push((prev, prev + p.skip().min(l)));
        prev = *e;
    }
    let call_in_skip = p.skip() > 0 && call_ends.iter().any(|ce| skip_zones.iter().any(|(a, b)| ce > a && ce < b));
    Ok(Observed { n_chunks: n, hash_cuts, max_cuts, call_in_skip, n_calls: call_ends.len() })
}

fn stream_oracle(c: &StreamCase, info: &mut Case) -> Result<(), String> {
    let target = 1usize << c.target_log2;
    let data = expand_all(&c.parts);
    let o = check_stream(target, &data, &c.calls, c.mode)?;
    info.nontrivial_if(target >= 1024 && o.n_chunks >= 2 && o.hash_cuts >= 1 && o.n_calls >= 3 && o.call_in_skip);
    info.label(format!("target=2^{}", c.target_log2));
    info.label(format!("mode={}", ["next", "next_block", "next_block_final"][c.mode as usize % 3]));
    if data.is_empty() {
        info.label("empty-stream");
    }
    if o.hash_cuts > 0 {
        info.label("has-hash-cut");
    }
    if o.max_cuts > 0 {
        info.label("has-max-cut");
    }
    if c.target_log2 >= 17 {
        info.label(if o.max_cuts > 0 { "large-target-with-max-cut" } else if o.hash_cuts > 0 { "large-target-with-hash-cut" } else { "large-target-single-chunk" });
    }
    if o.call_in_skip {
        info.label("call-ends-in-skipped-prefix");
    }
    if o.n_chunks >= 10 {
        info.label("chunks>=10");
    }
    for p in &c.parts {
        info.label(format!("class={}", p.class()));
    }
    info.note = Some(json!({"bytes": data.len(), "chunks": o.n_chunks, "hash_cuts": o.hash_cuts, "max_cuts": o.max_cuts, "calls": o.n_calls}));
    Ok(())
}

fn real_chunks(target: usize, data: &[u8]) -> Vec<deduplication::Chunk> {
    Chunker::new(target).next_block(data, true)
}

fn locality_oracle(c: &LocalityCase, info: &mut Case) -> Result<(), String> {
    let target = 1usize << c.target_log2;
    let p = ChunkParams::default_for(target);
    let pre = expand_all(&c.prefix_parts);
    let suf = expand_all(&c.suffix_parts);
    // P = the first `keep` natural chunks of the prefix stream (reference chunker decides "natural")
    let flagged = rc::boundaries_flagged(&pre, &p);
    let natural: Vec<usize> = flagged.iter().filter(|x| x.1).map(|x| x.0).collect();
    let keep = if natural.is_empty() { 0 } else { 1 + crate::engine::idx(c.keep, natural.len()) };
    let plen = if keep == 0 { 0 } else { natural[keep - 1] };
    let mut whole = pre[..plen].to_vec();
    whole.extend_from_slice(&suf);
    let cw = real_chunks(target, &whole);
    let cp = real_chunks(target, &pre[..plen]);
    let cs = real_chunks(target, &suf);
    if cp.len() != keep {
        return Err(format!("[sig:c04-locality-prefix] a concatenation of {keep} natural chunks re-chunks into {} chunks", cp.len()));
    }
    if cw.len() != cp.len() + cs.len() {
        return Err(format!(
            "[sig:c04-locality] chunks(P++B) has {} chunks, chunks(P)={} + chunks(B)={} (|P|={plen}, target {target})",
            cw.len(),
            cp.len(),
            cs.len()
        ));
    }
    for (i, (a, b)) in cw.iter().zip(cp.iter().chain(cs.iter())).enumerate() {
        if a != b {
            return Err(format!("[sig:c04-locality] chunk {i} of P++B differs from the chunks of P followed by the chunks of B"));
        }
    }
    // the same content placed after two different natural prefixes re-chunks identically: implied by the above for every P.
    info.nontrivial_if(keep >= 1 && cs.len() >= 2 && target >= 1024);
    info.label(format!("target=2^{}", c.target_log2));
    if keep >= 1 {
        info.label("nonempty-natural-prefix");
    }
    info.note = Some(json!({"prefix_chunks": keep, "suffix_chunks": cs.len(), "prefix_bytes": plen, "suffix_bytes": suf.len()}));
    Ok(())
}

/// Stream 'large-target': targets 2^14..2^27 with streams long enough for several maximum-size chunks.
/// `cap` bounds one recipe part (memory / time), so for the largest targets only shorter streams are seen.
fn large_strategy(cap: u64) -> BoxedStrategy<StreamCase> {
    prop_oneof![3 => 14u8..=22, 6 => 23u8..=25, 2 => 26u8..=27]
        .prop_flat_map(move |tl| {
            let t = 1u64 << tl;
            let hi = (t * 11 / 2).min(cap) as u32;
            let len = move || prop_oneof![1 => 0u32..=hi, 2 => (hi / 2)..=hi];
            let part = prop_oneof![
                3 => (any::<u8>(), len()).prop_map(|(byte, len)| Bytes::Const { byte, len }),
                2 => (any::<u64>(), 1u16..=64, len()).prop_map(|(seed, period, len)| Bytes::Periodic { seed, period, len }),
                2 => (any::<u64>(), len()).prop_map(|(seed, len)| Bytes::Random { seed, len }),
                1 => bytes_strategy(0, 300),
            ];
            (Just(tl), proptest::collection::vec(part, 1..=2), proptest::collection::vec((0u8..8, any::<u16>()), 0..12), 0u8..3)
                .prop_map(|(target_log2, parts, calls, mode)| StreamCase { target_log2, parts, calls, mode })
        })
        .boxed()
}

pub fn run(ctx: &Ctx) {
    let n_stream = ctx.tier.pick(480_000, 6_000_000);
    let n_local = ctx.tier.pick(120_000, 1_200_000);
    ctx.explore("stream", n_stream, 16, stream_strategy, stream_oracle);
    ctx.explore("locality", n_local, 16, locality_strategy, locality_oracle);
    let cap: u64 = ctx.tier.pick(48, 320) << 20;
    ctx.explore("large-target", ctx.tier.pick(96, 1_600), 4, move || large_strategy(cap), stream_oracle);
}

pub const ASSUMPTIONS: &[&str] = &[
    "MINIMUM_CHUNK_DIVISOR=8 and MAXIMUM_CHUNK_MULTIPLIER=2 (the shipped constants); other values are swept by the session checks through child processes",
    "the gear table data published by the gearhash crate is the specification's table",
    "BLAKE3 (blake3 crate) is correct",
];
