//! C02 Everything a session uploads is self-consistent and server-verifiable.

use std::collections::{BTreeMap, BTreeSet};
use std::io::Cursor;

use cas_object::{validate_cas_object_from_async_read, CasObject};
use mdb_shard::file_structs::MDBFileInfo;
use mdb_shard::MDBShardInfo;
use merklehash::MerkleHash;
use serde_json::json;
use sha2::{Digest, Sha256};

use super::c01::{case_strategy, C01Case};
use super::sess::{conf_labels, run_confs, structure_labels};
use crate::engine::{journal, Case, Ctx};
use crate::refs::merkle::{self as rm, H};
use crate::refs::xorb::{self as rx, RefFooter};
use crate::session::{run_history, HistoryObs, RunOpts};

pub const RULE: &str = "same history generator as C01 (configurations in child processes; sessions with internal / cross-file / cross-session duplication, empty files, multi-xorb files). After every session an independent validator walks the store: each xorb file is decoded by the reference decoder, its name must equal the reference Merkle hash of its chunks, its footer must describe the data, and both repository validators must accept it; each file record of every uploaded shard and of finalize_with_file_info must reference existing xorbs with in-range chunk indices whose lengths sum to the segment size, its file hash must equal the reference file hash of the referenced chunk list (and of the original bytes under the reference chunker), each verification entry must equal the reference range hash, and the recorded SHA-256 must equal SHA-256(original bytes) computed with the sha2 crate. non-trivial = session producing >= 2 new xorbs and a file with >= 2 segments one of which is a dedup hit (earlier-session xorb, shared xorb or second segment in the same xorb); distinct by fingerprint of the generated history";

pub const ASSUMPTIONS: &[&str] = &[
    "shard files are parsed with the repository's shard reader (validated separately by C09); xorbs are parsed with the independent reference decoder",
    "the local store writes xorbs uncompressed; compression round trips are C07's subject",
    "sha2 crate is the SHA-256 reference",
];

fn hex_of(h: &H) -> String {
    rm::hex(h)
}

pub struct StoreView {
    /// xorb hex -> chunk (hash, len) list
    pub xorbs: BTreeMap<String, Vec<(H, u64)>>,
}

pub fn validate_xorbs(obs: &HistoryObs) -> Result<StoreView, String> {
    let mut view = StoreView { xorbs: BTreeMap::new() };
    let dir = obs.xorb_dir();
    let Ok(rd) = std::fs::read_dir(&dir) else { return Ok(view) };
    for e in rd.flatten() {
        let name = e.file_name().to_string_lossy().to_string();
        let Some(hexname) = name.strip_prefix("default.") else {
            return Err(format!("[sig:c02-xorb-name] unexpected file {name} in the xorb directory"));
        };
        let bytes = std::fs::read(e.path()).map_err(|e| format!("[sig:infra] read xorb: {e}"))?;
        let parsed = rx::parse(&bytes).map_err(|er| format!("[sig:c02-xorb-undecodable] stored xorb {hexname} does not decode: {er}"))?;
        if parsed.chunks.is_empty() {
            return Err(format!("[sig:c02-xorb-empty] stored xorb {hexname} holds no chunks"));
        }
        match &parsed.footer {
            RefFooter::V1 { .. } => parsed.footer_consistent().map_err(|er| format!("[sig:c02-xorb-footer] stored xorb {hexname}: {er}"))?,
            _ => return Err(format!("[sig:c02-xorb-footer] stored xorb {hexname} has no version-1 footer")),
        }
        let h = parsed.hash();
        if hex_of(&h) != hexname {
            return Err(format!("[sig:c02-xorb-hash] stored xorb is named {hexname} but the hash recomputed from its chunks is {}", hex_of(&h)));
        }
        let mh = MerkleHash::from(&h);
        match CasObject::validate_cas_object(&mut Cursor::new(&bytes), &mh) {
            Ok(Some(_)) => {},
            other => return Err(format!("[sig:c02-xorb-rejected] validate_cas_object does not accept stored xorb {hexname}: {:?}", other.map(|o| o.is_some()))),
        }
        match futures::executor::block_on(validate_cas_object_from_async_read(&mut futures::io::Cursor::new(&bytes), &mh)) {
            Ok(Some(_)) => {},
            other => return Err(format!("[sig:c02-xorb-rejected] the streaming validator does not accept stored xorb {hexname}: {:?}", other.map(|o| o.is_some()))),
        }
        view.xorbs.insert(hexname.to_string(), parsed.leaves());
    }
    Ok(view)
}

/// known original files of the history: reference file hash hex -> (bytes, reference chunk list)
pub fn known_files(obs: &HistoryObs) -> BTreeMap<String, (std::sync::Arc<Vec<u8>>, Vec<(H, u64)>)> {
    let mut m = BTreeMap::new();
    for s in &obs.sessions {
        for f in &s.files {
            let fh = rm::file_hash(&f.chunks, &obs.salt);
            m.insert(hex_of(&fh), (f.bytes.clone(), f.chunks.clone()));
        }
    }
    m
}

pub fn check_file_record(
    whence: &str,
    fi: &MDBFileInfo,
    view: &StoreView,
    known: &BTreeMap<String, (std::sync::Arc<Vec<u8>>, Vec<(H, u64)>)>,
    salt: &[u8; 32],
) -> Result<(), String> {
    let fhex = fi.metadata.file_hash.hex();
    if fi.segments.len() != fi.metadata.num_entries as usize {
        return Err(format!("[sig:c02-record-count] {whence}: file {fhex}: header says {} segments, record holds {}", fi.metadata.num_entries, fi.segments.len()));
    }
    let mut chunk_list: Vec<(H, u64)> = Vec::new();
    let mut seg_hashes: Vec<Vec<H>> = Vec::new();
    for (i, seg) in fi.segments.iter().enumerate() {
        let xh = seg.cas_hash.hex();
        let Some(chunks) = view.xorbs.get(&xh) else {
            return Err(format!(
                "[sig:c02-dangling-xorb] {whence}: file {fhex} segment {i} references xorb {xh} which is not in the store{}",
                if seg.cas_hash == MerkleHash::default() { " (unresolved zero hash)" } else { "" }
            ));
        };
        let (s, e) = (seg.chunk_index_start as usize, seg.chunk_index_end as usize);
        if s >= e || e > chunks.len() {
            return Err(format!("[sig:c02-chunk-range] {whence}: file {fhex} segment {i} has chunk range [{s},{e}) in a xorb of {} chunks", chunks.len()));
        }
        let bytes: u64 = chunks[s..e].iter().map(|c| c.1).sum();
        if bytes != seg.unpacked_segment_bytes as u64 {
            return Err(format!("[sig:c02-segment-bytes] {whence}: file {fhex} segment {i} records {} bytes, its chunks sum to {bytes}", seg.unpacked_segment_bytes));
        }
        chunk_list.extend_from_slice(&chunks[s..e]);
        seg_hashes.push(chunks[s..e].iter().map(|c| c.0).collect());
    }
    // file hash from the referenced chunks
    let want_fh = rm::file_hash(&chunk_list, salt);
    if hex_of(&want_fh) != fhex {
        return Err(format!("[sig:c02-file-hash] {whence}: file record {fhex}: hash recomputed from the referenced chunks is {}", hex_of(&want_fh)));
    }
    // verification entries
    if !fi.contains_verification() {
        return Err(format!("[sig:c02-no-verification] {whence}: file record {fhex} carries no verification entries"));
    }
    if fi.verification.len() != fi.segments.len() {
        return Err(format!("[sig:c02-verification-count] {whence}: file {fhex}: {} verification entries for {} segments", fi.verification.len(), fi.segments.len()));
    }
    for (i, v) in fi.verification.iter().enumerate() {
        let want = rm::range_hash(&seg_hashes[i]);
        let got: H = v.range_hash.into();
        if got != want {
            return Err(format!("[sig:c02-verification] {whence}: file {fhex} segment {i}: verification hash differs from the range hash of the segment's chunks"));
        }
    }
    // tie to the original bytes
    if let Some((bytes, ref_chunks)) = known.get(&fhex) {
        if *ref_chunks != chunk_list {
            return Err(format!("[sig:c02-chunk-list] {whence}: file {fhex}: referenced chunk list differs from the reference chunking of the original bytes"));
        }
        let Some(ext) = &fi.metadata_ext else {
            return Err(format!("[sig:c02-no-sha] {whence}: file record {fhex} carries no SHA-256"));
        };
        let want = Sha256::digest(&bytes[..]);
        let want_hex: String = want.iter().map(|b| format!("{b:02x}")).collect();
        if ext.sha256.hex() != want_hex {
            return Err(format!(
                "[sig:c02-sha256{}] {whence}: file {fhex} ({} bytes): recorded SHA-256 {} != SHA-256 of the original bytes {want_hex}",
                if bytes.is_empty() { "-empty-file" } else { "" },
                bytes.len(),
                ext.sha256.hex()
            ));
        }
    } else {
        return Err(format!("[sig:c02-unknown-file] {whence}: file record {fhex} does not correspond to any file cleaned in this history"));
    }
    Ok(())
}

pub fn validate_store(obs: &HistoryObs, si: usize) -> Result<(usize, usize), String> {
    let view = validate_xorbs(obs)?;
    let known = known_files(obs);
    let s = &obs.sessions[si];
    let mut n_records = 0;
    // records returned by the session
    if let Ok((_, infos)) = &s.finalize {
        for fi in infos {
            check_file_record("finalize_with_file_info", fi, &view, &known, &obs.salt)?;
            n_records += 1;
        }
        // every file of the session must be among them
        let have: BTreeSet<String> = infos.iter().map(|f| f.metadata.file_hash.hex()).collect();
        for (fi, f) in s.files.iter().enumerate() {
            let fh = hex_of(&rm::file_hash(&f.chunks, &obs.salt));
            if !have.contains(&fh) {
                return Err(format!("[sig:c02-file-missing] file {fi} of session {si} ({} bytes) has no record in finalize_with_file_info", f.bytes.len()));
            }
        }
    }
    // every shard in the store
    let mut store_files: BTreeSet<String> = BTreeSet::new();
    if let Ok(rd) = std::fs::read_dir(obs.shard_dir()) {
        for e in rd.flatten() {
            let name = e.file_name().to_string_lossy().to_string();
            if !name.ends_with(".mdb") {
                continue;
            }
            let bytes = std::fs::read(e.path()).map_err(|e| format!("[sig:infra] read shard: {e}"))?;
            if format!("{}.mdb", merklehash::compute_data_hash(&bytes).hex()) != name {
                return Err(format!("[sig:c02-shard-name] uploaded shard {name} is not named by the hash of its content"));
            }
            let si_ = MDBShardInfo::load_from_reader(&mut Cursor::new(&bytes)).map_err(|e| format!("[sig:c02-shard-unreadable] uploaded shard {name}: {e}"))?;
            let files = si_.read_all_file_info_sections(&mut Cursor::new(&bytes)).map_err(|e| format!("[sig:c02-shard-unreadable] uploaded shard {name}: {e}"))?;
            for fi in &files {
                check_file_record(&format!("uploaded shard {}", &name[..8]), fi, &view, &known, &obs.salt)?;
                store_files.insert(fi.metadata.file_hash.hex());
                n_records += 1;
            }
            // xorb records of the shard describe the stored xorbs
            let cas = si_.read_all_cas_blocks_full(&mut Cursor::new(&bytes)).map_err(|e| format!("[sig:c02-shard-unreadable] uploaded shard {name}: {e}"))?;
            for c in &cas {
                let xh = c.metadata.cas_hash.hex();
                let Some(chunks) = view.xorbs.get(&xh) else {
                    return Err(format!("[sig:c02-shard-xorb-missing] uploaded shard {} lists xorb {xh} which is not in the store", &name[..8]));
                };
                let got: Vec<(H, u64)> = c.chunks.iter().map(|e| (e.chunk_hash.into(), e.unpacked_segment_bytes as u64)).collect();
                if got != *chunks {
                    return Err(format!("[sig:c02-shard-xorb-differs] uploaded shard {} lists xorb {xh} with a chunk list that differs from the stored xorb", &name[..8]));
                }
            }
        }
    }
    // all files cleaned so far are recorded in some uploaded shard
    for (sj, sess) in obs.sessions.iter().enumerate().take(si + 1) {
        for (fi, f) in sess.files.iter().enumerate() {
            let fh = hex_of(&rm::file_hash(&f.chunks, &obs.salt));
            if !f.bytes.is_empty() && !store_files.contains(&fh) {
                return Err(format!("[sig:c02-file-not-uploaded] file {fi} of session {sj} has no record in any uploaded shard after session {si}"));
            }
        }
    }
    Ok((view.xorbs.len(), n_records))
}

fn oracle(c: &C01Case, info: &mut Case) -> Result<(), String> {
    journal(&serde_json::to_string(c).unwrap_or_default());
    let counts = std::sync::Arc::new(std::sync::Mutex::new((0usize, 0usize)));
    let counts2 = counts.clone();
    let opts = RunOpts {
        after_session: Some(Box::new(move |obs: &HistoryObs, si: usize| {
            let s = &obs.sessions[si];
            if let Err(e) = &s.finalize {
                return Err(format!("[sig:c02-session-error] finalize failed without injected fault (session {si}): {e}"));
            }
            if let Some(f) = s.files.iter().find(|f| f.finish.is_err()) {
                return Err(format!("[sig:c02-session-error] a file failed to clean without injected fault: {:?}", f.finish.as_ref().err()));
            }
            let r = validate_store(obs, si)?;
            *counts2.lock().unwrap() = r;
            Ok(())
        })),
        ..Default::default()
    };
    let obs = run_history(&c.history, opts)?;
    let (n_xorbs, n_records) = *counts.lock().unwrap();
    let (nontrivial, _) = structure_labels(info, &obs);
    let multi_xorb_session = obs.sessions.iter().any(|s| s.xorbs_after.difference(&s.xorbs_before).count() >= 2);
    info.nontrivial_if(nontrivial && multi_xorb_session);
    conf_labels(info, &obs.conf);
    if obs.sessions.iter().any(|s| s.files.iter().any(|f| f.bytes.is_empty())) {
        info.label("has-empty-file");
    }
    info.note = Some(json!({"sessions": obs.sessions.len(), "xorbs_in_store": n_xorbs, "file_records_checked": n_records}));
    Ok(())
}

pub fn run(ctx: &Ctx) {
    if ctx.is_worker || ctx.replay.is_some() {
        ctx.explore("histories", 1, 1, || case_strategy(false), oracle);
    } else {
        run_confs(ctx, "histories", ctx.tier.pick(16, 96), ctx.tier.pick(60, 300), false, &[]);
    }
}
