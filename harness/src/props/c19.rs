//! C19 Interrupted writes never leave a partial file under a final name.
//!
//! Crash points are injected without any source hook: the operation runs in a child process under
//! `strace -e inject=<syscall>:signal=SIGKILL:when=k`, which kills the process at the *entry* of the
//! k-th call of a mutating system call - exactly the property's model (completed system calls
//! persist, the process stops between two file-system effects).

use std::collections::{BTreeMap, BTreeSet};
use std::io::Cursor;
use std::path::{Path, PathBuf};
use std::process::{Command, Stdio};
use std::time::Duration;

use cas_object::CasObject;
use chunk_cache::ChunkCache;
use mdb_shard::session_directory::consolidate_shards_in_directory;
use mdb_shard::shard_file_reconstructor::FileReconstructor;
use mdb_shard::{MDBShardFile, MDBShardInfo, ShardFileManager};
use merklehash::{compute_data_hash, MerkleHash};
use proptest::prelude::*;
use serde::{Deserialize, Serialize};
use serde_json::json;

use crate::cachex;
use crate::engine::{idx, Case, Ctx, Sm64};
use crate::gen::shard::{materialize, shard_spec, unkey, ShardModel, ShardSpec, K};

pub const RULE: &str = "operation in {session-shard flush, consolidate_shards_in_directory, cache-shard export_with_expiration, LocalClient::put of a xorb, DiskCache::put with subsumed items / eviction} x generated prior history (existing shards / xorbs / cache items, thresholds, capacities; in ~40% of the cases the operation writes content identical to a prior item, so its final name already exists, and in ~35% the prior shards are nested subsets of one another, so a union can equal one of its inputs). A dry run under strace lists the mutating file-system calls (open with O_CREAT/O_TRUNC, write, rename, unlink, mkdir, rmdir, chmod, truncate) the single-threaded child issues after a marker call; the child is then re-run once per such call with SIGKILL injected at the entry of exactly that call (EVERY crash point of the operation), plus the uninterrupted run; each injected run is traced and must have died at the intended call. After each stop the directory is re-opened and checked: every file under a final name is complete and consistent with its name (shard: name = hash of content and it parses fully; xorb: both validators accept it for the hash in its name; cache item: length and CRC in the name match the content), every record retrievable from the durable state before the operation is still retrievable, re-open succeeds with leftovers present. non-trivial = a crash point strictly between the first and the last effect of an operation with >= 3 effects; distinct = (case fingerprint, crash point)";

pub const ASSUMPTIONS: &[&str] = &[
    "process-stop model: completed system calls persist, no power-loss reordering (as the property states)",
    "the operation under test issues its file-system calls from one thread (checked on the dry run; otherwise the case is inconclusive, not failed)",
    "strace 6.1 injection semantics: the tracee is killed at syscall entry; counters are per syscall name and per tracee",
];

#[derive(Clone, Debug, Serialize, Deserialize)]
pub enum OpKind {
    Flush,
    Consolidate { threshold: u32 },
    ExportExpiration,
    LocalPut,
    CachePut { cap_kind: u8 },
}

#[derive(Clone, Debug, Serialize, Deserialize)]
pub struct CrashCase {
    pub op: OpKind,
    pub universe: ShardSpec,
    /// prior shards: subset seeds over the universe
    pub prior: Vec<u64>,
    pub seed: u64,
    /// the operation writes content identical to the selected prior item (same shard records /
    /// same xorb), so its final name already exists when it runs
    #[serde(default)]
    pub dup_of_prior: Option<u16>,
    /// prior shards form a chain of nested subsets (each a subset of the one before, the operation's content a
    /// subset of the last), so that a union can be byte-identical to one of its inputs
    #[serde(default)]
    pub nested: bool,
}

impl CrashCase {
    /// seed of the content the operation under test writes
    fn op_seed(&self) -> u64 {
        match self.dup_of_prior {
            Some(i) if !self.prior.is_empty() => self.prior[idx(i, self.prior.len())],
            _ => self.seed,
        }
    }
    /// (seed, chunk count) of the xorb the local put writes
    fn put_payload(&self) -> (u64, usize) {
        match self.dup_of_prior {
            Some(i) if !self.prior.is_empty() => {
                let k = idx(i, self.prior.len());
                (self.prior[k], 1 + k % 4)
            },
            _ => (self.seed ^ 0xabc, 1 + (self.seed % 5) as usize),
        }
    }
}

fn case_strategy() -> impl Strategy<Value = CrashCase> {
    (
        prop_oneof![
            3 => Just(OpKind::Flush),
            3 => prop_oneof![0u32..600, 600u32..200_000, Just(64u32 << 20)].prop_map(|threshold| OpKind::Consolidate { threshold }),
            2 => Just(OpKind::ExportExpiration),
            2 => Just(OpKind::LocalPut),
            3 => (0u8..3).prop_map(|cap_kind| OpKind::CachePut { cap_kind }),
        ],
        shard_spec(6, 10),
        proptest::collection::vec(any::<u64>(), 0..5),
        any::<u64>(),
        proptest::option::weighted(0.4, any::<u16>()),
        proptest::bool::weighted(0.35),
    )
        .prop_map(|(op, universe, prior, seed, dup_of_prior, nested)| CrashCase { op, universe, prior, seed, dup_of_prior, nested })
}

/// prior puts of the cache scenario: up to three per prior seed, nested / disjoint / repeated ranges on two
/// keys (repeated and covering puts delete earlier files, which varies the layout of the key directory)
fn cache_prior_ops(c: &CrashCase) -> Vec<(u8, u32, u32)> {
    let mut out = Vec::new();
    for s in &c.prior {
        for j in 0..(1 + (*s >> 20) % 3) {
            let v = s.rotate_right(7 * j as u32) ^ j;
            let k = (v % 2) as u8;
            let a = (v >> 8) as u32 % 8;
            out.push((k, a, (a + 1 + (a * 7 + k as u32 + j as u32) % 5).min(cachex::N_CHUNKS)));
        }
    }
    out
}

fn subset(u: &ShardModel, seed: u64) -> ShardModel {
    let mut m = ShardModel::default();
    let mut r = Sm64(seed);
    for (k, x) in &u.xorbs {
        if r.next() % 2 == 0 {
            m.xorbs.insert(*k, x.clone());
        }
    }
    for (k, f) in &u.files {
        if r.next() % 2 == 0 {
            m.files.insert(*k, f.clone());
        }
    }
    m
}

/// contents of the prior shards
fn prior_models(c: &CrashCase, u: &ShardModel) -> Vec<ShardModel> {
    let mut out: Vec<ShardModel> = Vec::new();
    for s in &c.prior {
        let m = match (c.nested, out.last()) {
            (true, Some(prev)) => subset(prev, *s),
            _ => subset(u, *s),
        };
        out.push(m);
    }
    out
}

/// content the operation under test writes
fn op_model(c: &CrashCase, u: &ShardModel) -> ShardModel {
    let pm = prior_models(c, u);
    match c.dup_of_prior {
        Some(i) if !pm.is_empty() => pm[idx(i, pm.len())].clone(),
        _ => match (c.nested, pm.last()) {
            (true, Some(prev)) => subset(prev, c.seed),
            _ => subset(u, c.seed),
        },
    }
}

// ---------------------------------------------------------------------------------------------
// child side: set-up, marker, operation

fn xorb_payload(seed: u64, n_chunks: usize) -> (MerkleHash, Vec<u8>, Vec<(MerkleHash, u32)>) {
    let mut r = Sm64(seed);
    let mut data = Vec::new();
    let mut cb = Vec::new();
    let mut leaves = Vec::new();
    for _ in 0..n_chunks {
        let len = 50 + (r.next() % 3000) as usize;
        let d = r.bytes(len);
        let h = compute_data_hash(&d);
        data.extend_from_slice(&d);
        cb.push((h, data.len() as u32));
        leaves.push((h, len));
    }
    (merkledb::aggregate_hashes::cas_node_hash(&leaves), data, cb)
}

/// Runs in the child process. Never returns an error for expected conditions; exits 0 at the end.
pub fn child(spec_path: &Path) {
    let spec: serde_json::Value = serde_json::from_str(&std::fs::read_to_string(spec_path).expect("spec")).expect("spec json");
    let dir = PathBuf::from(spec["dir"].as_str().unwrap());
    let c: CrashCase = serde_json::from_value(spec["case"].clone()).expect("case");
    let u = materialize(&c.universe);
    let marker = dir.join("MARKER");
    match &c.op {
        OpKind::Flush => {
            let d = dir.join("shards");
            std::fs::create_dir_all(&d).unwrap();
            for m in prior_models(&c, &u) {
                let _ = m.to_in_memory().write_to_directory(&d);
            }
            let rt = tokio::runtime::Builder::new_current_thread().enable_all().build().unwrap();
            rt.block_on(async {
                let mgr = ShardFileManager::new_in_session_directory(&d).await.unwrap();
                let m = op_model(&c, &u);
                for x in m.xorbs.values() {
                    mgr.add_cas_block(x.clone()).await.unwrap();
                }
                for f in m.files.values() {
                    mgr.add_file_reconstruction_info(f.clone()).await.unwrap();
                }
                std::fs::create_dir(&marker).unwrap();
                let _ = mgr.flush().await;
            });
        },
        OpKind::Consolidate { threshold } => {
            let d = dir.join("shards");
            std::fs::create_dir_all(&d).unwrap();
            for m in prior_models(&c, &u).into_iter().chain(std::iter::once(op_model(&c, &u))) {
                let _ = m.to_in_memory().write_to_directory(&d);
            }
            std::fs::create_dir(&marker).unwrap();
            let _ = consolidate_shards_in_directory(&d, *threshold as u64);
        },
        OpKind::ExportExpiration => {
            let src = dir.join("src");
            let d = dir.join("shards");
            std::fs::create_dir_all(&src).unwrap();
            std::fs::create_dir_all(&d).unwrap();
            for m in prior_models(&c, &u) {
                let _ = m.to_in_memory().write_to_directory(&d);
            }
            let p = op_model(&c, &u).to_in_memory().write_to_directory(&src).unwrap();
            let sf = MDBShardFile::load_from_file(&p).unwrap();
            if c.dup_of_prior.is_some() {
                // the same export already happened (same name if it falls into the same second)
                let _ = sf.export_with_expiration(&d, Duration::from_secs(3600));
            }
            std::fs::create_dir(&marker).unwrap();
            let _ = sf.export_with_expiration(&d, Duration::from_secs(3600));
        },
        OpKind::LocalPut => {
            let store = dir.join("store");
            let rt = tokio::runtime::Builder::new_multi_thread().worker_threads(1).enable_all().build().unwrap();
            rt.block_on(async {
                use cas_client::UploadClient;
                let client = cas_client::LocalClient::new(&store, None).unwrap();
                for (i, s) in c.prior.iter().enumerate() {
                    let (h, data, cb) = xorb_payload(*s, 1 + i % 4);
                    client.put("default", &h, data, cb).await.unwrap();
                }
                let (ps, pn) = c.put_payload();
                let (h, data, cb) = xorb_payload(ps, pn);
                std::fs::create_dir(&marker).unwrap();
                let _ = client.put("default", &h, data, cb).await;
            });
        },
        OpKind::CachePut { cap_kind } => {
            let root = dir.join("cache");
            let capacity = crate::props::c13::capacity_of(*cap_kind, (c.seed % 700) as u16);
            let cache = cachex::open(&root, capacity).unwrap();
            // prior items: nested / disjoint ranges on two keys
            let prior_ops = cache_prior_ops(&c);
            for (k, a, b) in &prior_ops {
                let (o, d) = cachex::range_data(*k, *a, *b);
                let _ = cache.put(&cachex::key_of(*k), &cas_types::ChunkRange { start: *a, end: *b }, &o, &d);
            }
            // the put under test subsumes what lies inside [0, 12) of key 0
            let (o, d) = cachex::range_data(0, 0, 12);
            std::fs::create_dir(&marker).unwrap();
            let _ = cache.put(&cachex::key_of(0), &cas_types::ChunkRange { start: 0, end: 12 }, &o, &d);
        },
    }
    std::process::exit(0);
}

// ---------------------------------------------------------------------------------------------
// parent side

const TRACE_SET: &str = "openat,creat,write,pwrite64,writev,rename,renameat,renameat2,unlink,unlinkat,mkdir,mkdirat,rmdir,ftruncate,truncate,chmod,fchmod,fchmodat,link,linkat,symlink,symlinkat";

#[derive(Clone, Debug)]
struct Effect {
    name: String,
    /// ordinal among the main thread's calls of this name since exec (1-based) = strace's `when`
    ordinal: usize,
    text: String,
}

fn parse_trace(text: &str, base: &Path) -> Result<(Vec<Effect>, bool), String> {
    let mut main_pid: Option<&str> = None;
    let mut counts: BTreeMap<String, usize> = BTreeMap::new();
    let mut after_marker = false;
    let mut effects = Vec::new();
    let mut foreign_effect = false;
    let base_s = base.to_string_lossy().to_string();
    for line in text.lines() {
        let Some((pid, rest)) = line.split_once(' ') else { continue };
        let rest = rest.trim_start();
        if main_pid.is_none() {
            main_pid = Some(pid);
        }
        if rest.starts_with("<...") || rest.starts_with("+++") || rest.starts_with("---") {
            continue;
        }
        let Some(paren) = rest.find('(') else { continue };
        let name = &rest[..paren];
        if !name.chars().all(|c| c.is_ascii_alphanumeric() || c == '_') {
            continue;
        }
        let is_main = Some(pid) == main_pid;
        if is_main {
            *counts.entry(name.to_string()).or_default() += 1;
        }
        let is_marker = name == "mkdir" && rest.contains("/MARKER\"");
        if is_marker && is_main {
            after_marker = true;
            continue;
        }
        if !after_marker {
            continue;
        }
        // is it a mutating effect?
        let mutating = match name {
            "openat" | "creat" => rest.contains("O_CREAT") || rest.contains("O_TRUNC"),
            "write" | "pwrite64" | "writev" => {
                // only writes to files (fd >= 3); fds 0-2 are the std streams
                let fd: i64 = rest[paren + 1..].split(|c| c == ',' || c == ')').next().and_then(|s| s.trim().parse().ok()).unwrap_or(0);
                fd >= 3
            },
            _ => true,
        };
        if !mutating {
            continue;
        }
        if is_main {
            effects.push(Effect { name: name.to_string(), ordinal: counts[name], text: rest.chars().take(160).collect() });
        } else if rest.contains(&base_s) {
            foreign_effect = true;
        }
    }
    Ok((effects, foreign_effect))
}

fn run_child(base: &Path, c: &CrashCase, inject: Option<&Effect>, trace_out: &Path) -> Result<Option<i32>, String> {
    let spec = base.join("spec.json");
    std::fs::write(&spec, serde_json::to_string(&json!({"dir": base.to_string_lossy(), "case": c})).unwrap()).map_err(|e| format!("[sig:infra] spec: {e}"))?;
    let exe = std::env::current_exe().map_err(|e| format!("[sig:infra] exe: {e}"))?;
    let mut cmd = Command::new("strace");
    cmd.arg("-f").arg("-s").arg("8").arg("-o").arg(trace_out).arg("-e").arg(format!("trace={TRACE_SET}"));
    if let Some(e) = inject {
        cmd.arg("-e").arg(format!("inject={}:signal=SIGKILL:when={}", e.name, e.ordinal));
    }
    cmd.arg("--").arg(exe).arg("C19").arg("--crash-child").arg(&spec).stdin(Stdio::null()).stdout(Stdio::null()).stderr(Stdio::null());
    let st = cmd.status().map_err(|e| format!("[sig:infra] strace: {e}"))?;
    Ok(st.code())
}

fn hex_name_ok(name: &str, bytes: &[u8]) -> bool {
    name == format!("{}.mdb", compute_data_hash(bytes).hex())
}

/// records retrievable from a shard directory: (file keys, xorb keys)
fn shard_dir_records(dir: &Path) -> Result<(BTreeSet<K>, BTreeSet<K>), String> {
    let mut files = BTreeSet::new();
    let mut xorbs = BTreeSet::new();
    if let Ok(rd) = std::fs::read_dir(dir) {
        for e in rd.flatten() {
            let name = e.file_name().to_string_lossy().to_string();
            if !name.ends_with(".mdb") {
                continue;
            }
            let bytes = std::fs::read(e.path()).map_err(|e| e.to_string())?;
            if !hex_name_ok(&name, &bytes) {
                return Err(format!("[sig:c19-shard-name] shard file {} is not named by the hash of its content ({} bytes): a partial or foreign file under a final name", &name[..12], bytes.len()));
            }
            let si = MDBShardInfo::load_from_reader(&mut Cursor::new(&bytes)).map_err(|er| format!("[sig:c19-shard-partial] shard file {} does not load: {er}", &name[..12]))?;
            if si.num_bytes() != bytes.len() as u64 {
                return Err(format!("[sig:c19-shard-partial] shard file {} has {} bytes, its footer says {}", &name[..12], bytes.len(), si.num_bytes()));
            }
            for f in si.read_all_file_info_sections(&mut Cursor::new(&bytes)).map_err(|er| format!("[sig:c19-shard-partial] {er}"))? {
                files.insert(*f.metadata.file_hash);
            }
            for x in si.read_all_cas_blocks_full(&mut Cursor::new(&bytes)).map_err(|er| format!("[sig:c19-shard-partial] {er}"))? {
                xorbs.insert(*x.metadata.cas_hash);
            }
        }
    }
    Ok((files, xorbs))
}

fn verify_shard_dir(dir: &Path, want_files: &BTreeSet<K>, want_xorbs: &BTreeSet<K>, what: &str) -> Result<(), String> {
    let (files, xorbs) = shard_dir_records(dir)?;
    if let Some(k) = want_files.difference(&files).next() {
        return Err(format!("[sig:c19-record-lost] {what}: file record {:016x}.. was retrievable before the interrupted operation and is gone after it", k[0]));
    }
    if let Some(k) = want_xorbs.difference(&xorbs).next() {
        return Err(format!("[sig:c19-record-lost] {what}: xorb record {:016x}.. was retrievable before the interrupted operation and is gone after it", k[0]));
    }
    // the manager re-opens in the presence of leftovers and still answers
    let rt = tokio::runtime::Builder::new_current_thread().enable_all().build().map_err(|e| e.to_string())?;
    let dir2 = dir.to_path_buf();
    let wf: Vec<K> = want_files.iter().take(8).cloned().collect();
    rt.block_on(async move {
        let mgr = ShardFileManager::new_in_session_directory(&dir2).await.map_err(|e| format!("[sig:c19-reopen-failed] {what}: shard manager cannot re-open the directory: {e}"))?;
        for k in wf {
            let h = MerkleHash::from(&unkey(&k));
            match mgr.get_file_reconstruction_info(&h).await {
                Ok(Some(_)) => {},
                other => return Err(format!("[sig:c19-record-lost] {what}: file {:016x}.. not retrievable through the re-opened manager: {:?}", k[0], other.map(|o| o.is_some()))),
            }
        }
        Ok::<(), String>(())
    })
}

fn model_keys(models: &[ShardModel]) -> (BTreeSet<K>, BTreeSet<K>) {
    let mut f = BTreeSet::new();
    let mut x = BTreeSet::new();
    for m in models {
        f.extend(m.files.keys().cloned());
        x.extend(m.xorbs.keys().cloned());
    }
    (f, x)
}

fn verify(base: &Path, c: &CrashCase, completed: bool) -> Result<(), String> {
    let u = materialize(&c.universe);
    match &c.op {
        OpKind::Flush => {
            let prior: Vec<ShardModel> = prior_models(c, &u);
            let (mut wf, mut wx) = model_keys(&prior);
            if completed {
                let (f2, x2) = model_keys(&[op_model(c, &u)]);
                wf.extend(f2);
                wx.extend(x2);
            }
            verify_shard_dir(&base.join("shards"), &wf, &wx, "flush")
        },
        OpKind::Consolidate { .. } => {
            let all: Vec<ShardModel> = prior_models(c, &u).into_iter().chain(std::iter::once(op_model(c, &u))).collect();
            let (wf, wx) = model_keys(&all);
            verify_shard_dir(&base.join("shards"), &wf, &wx, "consolidation")
        },
        OpKind::ExportExpiration => {
            let prior: Vec<ShardModel> = prior_models(c, &u);
            let (mut wf, mut wx) = model_keys(&prior);
            if completed {
                let (f2, x2) = model_keys(&[op_model(c, &u)]);
                wf.extend(f2);
                wx.extend(x2);
            }
            verify_shard_dir(&base.join("shards"), &wf, &wx, "export_with_expiration")
        },
        OpKind::LocalPut => {
            let xdir = base.join("store/xorbs");
            let mut present = BTreeSet::new();
            if let Ok(rd) = std::fs::read_dir(&xdir) {
                for e in rd.flatten() {
                    let name = e.file_name().to_string_lossy().to_string();
                    let Some(hex) = name.strip_prefix("default.") else { continue };
                    let Ok(h) = MerkleHash::from_hex(hex) else { continue };
                    let bytes = std::fs::read(e.path()).map_err(|e| e.to_string())?;
                    match CasObject::validate_cas_object(&mut Cursor::new(&bytes), &h) {
                        Ok(Some(_)) => {},
                        other => return Err(format!("[sig:c19-xorb-partial] xorb file {hex} under its final name is not accepted by validate_cas_object ({} bytes): {:?}", bytes.len(), other.map(|o| o.is_some()))),
                    }
                    match futures::executor::block_on(cas_object::validate_cas_object_from_async_read(&mut futures::io::Cursor::new(&bytes), &h)) {
                        Ok(Some(_)) => {},
                        other => return Err(format!("[sig:c19-xorb-partial] xorb file {hex} under its final name is not accepted by the streaming validator: {:?}", other.map(|o| o.is_some()))),
                    }
                    present.insert(h.hex());
                }
            }
            for (i, s) in c.prior.iter().enumerate() {
                let (h, _, _) = xorb_payload(*s, 1 + i % 4);
                if !present.contains(&h.hex()) {
                    return Err(format!("[sig:c19-record-lost] xorb {} stored before the interrupted put is gone", h.hex()));
                }
            }
            if completed {
                let (ps, pn) = c.put_payload();
                let (h, _, _) = xorb_payload(ps, pn);
                if !present.contains(&h.hex()) {
                    return Err("[sig:c19-put-lost] the uninterrupted put did not store its xorb".into());
                }
            }
            Ok(())
        },
        OpKind::CachePut { cap_kind } => {
            let root = base.join("cache");
            let capacity = crate::props::c13::capacity_of(*cap_kind, (c.seed % 700) as u16);
            // every file under a cache-item name matches the (length, CRC) in its name
            for (dir, name, size) in cachex::list_files(&root) {
                if !cachex::is_item_name(&name) {
                    continue;
                }
                use base64::Engine;
                let b = cachex::B64.decode(name.as_bytes()).unwrap();
                let len = u64::from_le_bytes(b[8..16].try_into().unwrap());
                let crc = u32::from_le_bytes(b[16..20].try_into().unwrap());
                let bytes = std::fs::read(root.join(&dir).join(&name)).map_err(|e| e.to_string())?;
                if size != len || crc32fast::hash(&bytes) != crc {
                    return Err(format!("[sig:c19-cache-item-partial] cache file {name} ({size} bytes) does not match the length {len} / checksum in its name"));
                }
            }
            let cache = cachex::open(&root, capacity).map_err(|e| format!("[sig:c19-reopen-failed] cache cannot re-open after the interrupted put: {e}"))?;
            // temp files are cleaned at re-open
            for (_, name, _) in cachex::list_files(&root) {
                if name.ends_with(".tmp") {
                    return Err(format!("[sig:c19-temp-left] temporary file {name} survives the cache re-open"));
                }
            }
            // the hit oracle holds for every range; with ample capacity earlier ranges stay retrievable
            let prior_ops = cache_prior_ops(c);
            for k in 0..2u8 {
                for a in 0..cachex::N_CHUNKS {
                    for b in a + 1..=cachex::N_CHUNKS {
                        let op = cachex::Op::Get { key: k, a: a as u8, len: (b - a - 1) as u8 };
                        if op.range() != (k, a, b) {
                            continue;
                        }
                        let out = cachex::apply(&cache, &op, None)?;
                        if cap_kind % 3 == 2 && prior_ops.contains(&(k, a, b)) && !matches!(out, cachex::OpOutcome::Hit) {
                            return Err(format!("[sig:c19-record-lost] range [{a},{b}) of key {k} was cached before the interrupted put (ample capacity) and is no longer a hit: {out:?}"));
                        }
                    }
                }
            }
            if completed && cap_kind % 3 == 2 {
                let out = cachex::apply(&cache, &cachex::Op::Get { key: 0, a: 0, len: 11 }, None)?;
                if !matches!(out, cachex::OpOutcome::Hit) {
                    return Err(format!("[sig:c19-put-lost] the uninterrupted put is not retrievable after re-open: {out:?}"));
                }
            }
            Ok(())
        },
    }
}

pub static CRASH_RUNS: std::sync::atomic::AtomicU64 = std::sync::atomic::AtomicU64::new(0);
pub static MID_RUNS: std::sync::atomic::AtomicU64 = std::sync::atomic::AtomicU64::new(0);
pub static SKIPPED_POINTS: std::sync::atomic::AtomicU64 = std::sync::atomic::AtomicU64::new(0);

fn oracle(c: &CrashCase, info: &mut Case) -> Result<(), String> {
    let tmp = tempfile::Builder::new().prefix("xvk-").tempdir_in(crate::engine::work_dir()).map_err(|e| format!("[sig:infra] tempdir: {e}"))?;
    // dry run
    let dry = tmp.path().join("dry");
    std::fs::create_dir_all(&dry).unwrap();
    let trace = tmp.path().join("dry.trace");
    let code = run_child(&dry, c, None, &trace)?;
    if code != Some(0) {
        return Err(format!("[sig:infra] the uninterrupted child run ended with {code:?}"));
    }
    let text = std::fs::read_to_string(&trace).map_err(|e| format!("[sig:infra] trace: {e}"))?;
    let (effects, foreign) = parse_trace(&text, &dry)?;
    if foreign {
        info.label("skipped:effects-from-several-threads");
        return Ok(());
    }
    verify(&dry, c, true).map_err(|e| format!("{e} (uninterrupted run)"))?;
    let opname = match &c.op {
        OpKind::Flush => "flush",
        OpKind::Consolidate { .. } => "consolidate",
        OpKind::ExportExpiration => "export",
        OpKind::LocalPut => "local-put",
        OpKind::CachePut { .. } => "cache-put",
    };
    info.label(format!("op:{opname}"));
    if c.nested && c.prior.len() >= 1 {
        info.label(format!("op:{opname}:nested-prior-contents"));
    }
    if c.dup_of_prior.is_some() && !c.prior.is_empty() {
        info.label(format!("op:{opname}:content-identical-to-a-prior-item"));
    }
    let n = effects.len();
    let mut mid = 0;
    for (i, e) in effects.iter().enumerate() {
        let base = tmp.path().join(format!("k{i}"));
        std::fs::create_dir_all(&base).unwrap();
        let tr = tmp.path().join(format!("k{i}.trace"));
        let code = run_child(&base, c, Some(e), &tr)?;
        let ttext = std::fs::read_to_string(&tr).unwrap_or_default();
        // the tracee must have died at the intended call
        let killed = ttext.contains("+++ killed by SIGKILL +++");
        let (eff2, _) = parse_trace(&ttext, &base)?;
        let died_at_intended = killed && eff2.len() == i + 1 && eff2[i].name == e.name && eff2[i].ordinal == e.ordinal;
        if !died_at_intended {
            // different syscall sequence in this run (e.g. hash-map order): not a verdict either way
            SKIPPED_POINTS.fetch_add(1, std::sync::atomic::Ordering::Relaxed);
            info.label("skipped-point:run-diverged-from-dry-run");
            let _ = code;
            let _ = std::fs::remove_dir_all(&base);
            continue;
        }
        CRASH_RUNS.fetch_add(1, std::sync::atomic::Ordering::Relaxed);
        verify(&base, c, false).map_err(|er| format!("{er} (stopped before effect {i} of {n}: {})", e.text))?;
        if n >= 3 && i > 0 && i + 1 < n {
            mid += 1;
            MID_RUNS.fetch_add(1, std::sync::atomic::Ordering::Relaxed);
        }
        let _ = std::fs::remove_dir_all(&base);
    }
    info.nontrivial_if(mid > 0);
    info.label(format!("effects={}", match n { 0 => "0", 1..=2 => "1-2", 3..=9 => "3-9", 10..=29 => "10-29", _ => ">=30" }));
    info.note = Some(json!({"op": opname, "effects": n, "crash_points_between_first_and_last": mid, "sample_effects": effects.iter().take(6).map(|e| e.text.clone()).collect::<Vec<_>>()}));
    Ok(())
}

pub fn run(ctx: &Ctx) {
    ctx.explore("crash", ctx.tier.pick(112, 6000), 16, case_strategy, oracle);
    ctx.bump_extra("crash_runs", CRASH_RUNS.load(std::sync::atomic::Ordering::Relaxed));
    ctx.bump_extra("crash_runs_strictly_inside_an_operation", MID_RUNS.load(std::sync::atomic::Ordering::Relaxed));
    ctx.bump_extra("crash_points_skipped_run_diverged", SKIPPED_POINTS.load(std::sync::atomic::Ordering::Relaxed));
}
