pub mod c04;
pub mod c06;
pub mod c07;
pub mod c08;
pub mod c09;
pub mod c05;
pub mod c10;
pub mod c18;
