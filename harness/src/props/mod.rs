pub mod c04;
