pub mod c04;
pub mod c06;
