//! C11 Data uploaded once is deduplicated by every later session.

use std::collections::{BTreeMap, BTreeSet};
use std::io::Cursor;

use mdb_shard::MDBShardInfo;
use proptest::prelude::*;
use serde::{Deserialize, Serialize};
use serde_json::json;

use super::sess::{conf_labels, run_confs};
use crate::engine::{idx, journal, Case, Ctx};
use crate::refs::merkle::H;
use crate::refs::xorb as rx;
use crate::session::{file_strategy, run_history, Elem, FileSpec, History, HistoryObs, RunOpts, SessionSpec};

pub const RULE: &str = "histories on one client machine (sessions run by the long-lived process or by a second process that shares the client's shard cache directory through its own shard-manager instances): 1-2 sessions uploading fresh chunk-pool files (sub-chunk .. multi-xorb, one or many per session), then 1-3 later sessions that re-upload earlier files unchanged (new add_data partitions), extended by fresh chunks, or recombined from spans of several earlier files; each later session runs either in the same process state or after a simulated client restart (state re-loaded from the shard cache directory); xorb / shard limits per child-process configuration so that data lands in mid-file xorbs, session-level cuts and the final aggregated xorb. Oracle: (1) after every finalized session each xorb file newly present in the store has its full chunk list recorded in the CAS section of a shard in the client's shard cache; (2) for every later session, with K = chunk hashes held by the store before it: new_bytes <= bytes of chunk occurrences outside K + bytes withheld by fragmentation prevention, and a session all of whose chunks are in K with nothing withheld reports new_bytes = 0 and creates no xorb file. non-trivial = a later session made only of stored chunks that came from >= 2 xorbs, one of them a session's final aggregated xorb; distinct by fingerprint of the generated case";

pub const ASSUMPTIONS: &[&str] = &[
    "all sessions of a history run on the same client (the property is about sessions sharing the local shard cache)",
    "chunk hashes are collision-free in their 64-bit prefix (random data), so the manager's last-writer-wins index cannot hide a stored chunk",
    "sequential cleaning inside the later sessions, so 'stored before the session' is well defined",
];

#[derive(Clone, Debug, Serialize, Deserialize)]
pub enum Derive {
    /// re-upload earlier file (selector) unchanged
    Same(u16),
    /// earlier file without its tail + n fresh chunks
    Extended(u16, u8, u64),
    /// concatenate spans of earlier files: (file selector, start, len)
    Recombined(Vec<(u16, u16, u8)>),
}

#[derive(Clone, Debug, Serialize, Deserialize)]
pub struct Later {
    pub files: Vec<(Derive, Vec<(u8, u16)>)>,
    pub restart_before: bool,
    /// run by another process of the same client (own shard-manager instances, shared cache directory)
    #[serde(default)]
    pub peer: bool,
}

#[derive(Clone, Debug, Serialize, Deserialize)]
pub struct C11Case {
    pub pool_seed: u64,
    pub n_ids: u16,
    pub first: Vec<Vec<FileSpec>>,
    pub later: Vec<Later>,
    /// which of the first sessions are run by another process of the same client
    #[serde(default)]
    pub first_peer: Vec<bool>,
}

fn derive_strategy() -> impl Strategy<Value = Derive> {
    prop_oneof![
        4 => any::<u16>().prop_map(Derive::Same),
        2 => (any::<u16>(), 1u8..6, any::<u64>()).prop_map(|(f, n, s)| Derive::Extended(f, n, s)),
        2 => proptest::collection::vec((any::<u16>(), any::<u16>(), 1u8..30), 1..4).prop_map(Derive::Recombined),
    ]
}

fn case_strategy() -> impl Strategy<Value = C11Case> {
    (
        any::<u64>(),
        prop_oneof![24u16..200, 200u16..2000],
        proptest::collection::vec(proptest::collection::vec(file_strategy(false), 1..5), 1..3),
        proptest::collection::vec(
            (proptest::collection::vec((derive_strategy(), proptest::collection::vec((0u8..8, any::<u16>()), 0..4)), 1..4), proptest::bool::weighted(0.4), proptest::bool::weighted(0.3))
                .prop_map(|(files, restart_before, peer)| Later { files, restart_before, peer }),
            1..4,
        ),
        proptest::collection::vec(proptest::bool::weighted(0.3), 2),
    )
        .prop_map(|(pool_seed, n_ids, first, later, first_peer)| C11Case { pool_seed, n_ids, first, later, first_peer })
}

/// xorb file name -> chunk (hash, len) list, via the reference decoder
fn store_xorbs(obs: &HistoryObs, names: &BTreeSet<String>) -> Result<BTreeMap<String, Vec<(H, u64)>>, String> {
    let mut m = BTreeMap::new();
    for n in names {
        let bytes = std::fs::read(obs.xorb_dir().join(n)).map_err(|e| format!("[sig:infra] read xorb {n}: {e}"))?;
        let p = rx::parse(&bytes).map_err(|e| format!("[sig:c11-xorb-undecodable] stored xorb {n}: {e}"))?;
        m.insert(n.clone(), p.leaves());
    }
    Ok(m)
}

/// chunk lists recorded in the CAS sections of all shards in a directory: xorb hex -> list
fn shard_cas_records(dir: &std::path::Path) -> Result<BTreeMap<String, Vec<(H, u64)>>, String> {
    let mut m = BTreeMap::new();
    let Ok(rd) = std::fs::read_dir(dir) else { return Ok(m) };
    for e in rd.flatten() {
        let name = e.file_name().to_string_lossy().to_string();
        if !name.ends_with(".mdb") {
            continue;
        }
        let bytes = std::fs::read(e.path()).map_err(|e| format!("[sig:infra] read shard: {e}"))?;
        let si = MDBShardInfo::load_from_reader(&mut Cursor::new(&bytes)).map_err(|e| format!("[sig:c11-shard-unreadable] cache shard {name}: {e}"))?;
        for c in si.read_all_cas_blocks_full(&mut Cursor::new(&bytes)).map_err(|e| format!("[sig:c11-shard-unreadable] cache shard {name}: {e}"))? {
            m.insert(c.metadata.cas_hash.hex(), c.chunks.iter().map(|x| (x.chunk_hash.into(), x.unpacked_segment_bytes as u64)).collect());
        }
    }
    Ok(m)
}

fn oracle(c: &C11Case, info: &mut Case) -> Result<(), String> {
    journal(&serde_json::to_string(c).unwrap_or_default());
    // build the history
    let mut sessions: Vec<SessionSpec> = Vec::new();
    let mut all_files: Vec<FileSpec> = Vec::new();
    for (fi, files) in c.first.iter().enumerate() {
        sessions.push(SessionSpec { files: files.clone(), concurrent: false, yields: vec![], client: 0, restart_before: false, peer: c.first_peer.get(fi).copied().unwrap_or(false) });
        all_files.extend(files.iter().cloned());
    }
    let n_first = sessions.len();
    let mut kinds: Vec<Vec<&'static str>> = Vec::new();
    for l in &c.later {
        let mut files = Vec::new();
        let mut ks = Vec::new();
        for (d, feed) in &l.files {
            let spec = match d {
                Derive::Same(sel) => {
                    ks.push("same");
                    let mut f = all_files[idx(*sel, all_files.len())].clone();
                    f.feed = feed.clone();
                    f
                },
                Derive::Extended(sel, n, seed) => {
                    ks.push("extended");
                    let mut f = all_files[idx(*sel, all_files.len())].clone();
                    f.tail = None;
                    for k in 0..*n as u64 {
                        f.elems.push(Elem::Uniq(seed.wrapping_add(k << 32)));
                    }
                    f.feed = feed.clone();
                    f
                },
                Derive::Recombined(spans) => {
                    ks.push("recombined");
                    let mut elems = Vec::new();
                    for (sel, start, len) in spans {
                        let src = &all_files[idx(*sel, all_files.len())];
                        // expand to plain chunk keys so that spans are well defined
                        let keys = src.keys(c.n_ids);
                        if keys.is_empty() {
                            continue;
                        }
                        let s = idx(*start, keys.len());
                        let e = (s + *len as usize).min(keys.len());
                        for k in &keys[s..e] {
                            if *k >= crate::session::UNIQ_BASE {
                                elems.push(Elem::Uniq((*k - crate::session::UNIQ_BASE) << 24));
                            } else {
                                elems.push(Elem::C(*k as u16));
                            }
                        }
                    }
                    FileSpec { elems, tail: None, feed: feed.clone() }
                },
            };
            files.push(spec);
        }
        all_files.extend(files.iter().cloned());
        kinds.push(ks);
        sessions.push(SessionSpec { files, concurrent: false, yields: vec![], client: 0, restart_before: l.restart_before, peer: l.peer });
    }
    let h = History { pool_seed: c.pool_seed, n_ids: c.n_ids, salt_seed: 7, sessions, global_dedup: false };

    // per-session store inspection
    let results = std::sync::Arc::new(std::sync::Mutex::new(Vec::<(bool, bool, usize, bool)>::new()));
    let results2 = results.clone();
    let first_final_xorbs = std::sync::Arc::new(std::sync::Mutex::new(BTreeSet::<String>::new()));
    let ffx = first_final_xorbs.clone();
    let opts = RunOpts {
        after_session: Some(Box::new(move |obs: &HistoryObs, si: usize| {
            let s = &obs.sessions[si];
            if let Err(e) = &s.finalize {
                return Err(format!("[sig:c11-session-error] finalize failed without injected fault (session {si}): {e}"));
            }
            if let Some(f) = s.files.iter().find(|f| f.finish.is_err()) {
                return Err(format!("[sig:c11-session-error] clean failed without injected fault: {:?} {:?}", f.finish.as_ref().err(), f.add_err));
            }
            // (1) structural: new xorb files are fully recorded in the client's shard cache
            let new_names: BTreeSet<String> = s.xorbs_after.difference(&s.xorbs_before).cloned().collect();
            let new_xorbs = store_xorbs(obs, &new_names)?;
            let recorded = shard_cas_records(&s.cache_dir)?;
            for (name, chunks) in &new_xorbs {
                let hex = name.strip_prefix("default.").unwrap_or(name);
                match recorded.get(hex) {
                    None => {
                        return Err(format!(
                            "[sig:c11-xorb-not-in-shard] session {si} stored xorb {hex} ({} chunks, {} bytes) but no shard in the shard cache records it, so later sessions cannot deduplicate against it",
                            chunks.len(),
                            chunks.iter().map(|c| c.1).sum::<u64>()
                        ))
                    },
                    Some(rec) if rec != chunks => return Err(format!("[sig:c11-xorb-record-differs] shard cache records xorb {hex} with a different chunk list than the stored xorb")),
                    _ => {},
                }
            }
            // the last xorb put of a session is its final aggregated xorb
            if si < 2 {
                if let Some(crate::session::Event { call: crate::session::Call::Put { hash, .. }, .. }) =
                    s.log.iter().rev().find(|e| e.start && matches!(e.call, crate::session::Call::Put { .. }))
                {
                    ffx.lock().unwrap().insert(format!("default.{}", crate::refs::merkle::hex(hash)));
                }
            }
            // (2) behavioural
            let before = store_xorbs(obs, &s.xorbs_before)?;
            let mut k: BTreeMap<H, &String> = BTreeMap::new();
            for (name, chunks) in &before {
                for (hh, _) in chunks {
                    k.entry(*hh).or_insert(name);
                }
            }
            let (metrics, _) = s.finalize.as_ref().unwrap();
            let mut outside = 0u64;
            let mut all_known = true;
            let mut source_xorbs: BTreeSet<&String> = BTreeSet::new();
            for f in &s.files {
                for (hh, l) in &f.chunks {
                    match k.get(hh) {
                        Some(x) => {
                            source_xorbs.insert(*x);
                        },
                        None => {
                            outside += *l;
                            all_known = false;
                        },
                    }
                }
            }
            let total: u64 = s.files.iter().map(|f| f.bytes.len() as u64).sum();
            if si > 0 {
                let allowed = outside + metrics.defrag_prevented_dedup_bytes as u64;
                if metrics.new_bytes as u64 > allowed {
                    if std::env::var_os("XV_DEBUG").is_some() {
                        for (fi, f) in s.files.iter().enumerate() {
                            let m = f.finish.as_ref().map(|x| x.1.clone()).unwrap_or_default();
                            let out: u64 = f.chunks.iter().filter(|c| !k.contains_key(&c.0)).map(|c| c.1).sum();
                            eprintln!(
                                "DEBUG file {fi}: {} bytes, {} chunks, outside-K {out} bytes; new {} deduped {} withheld {} ({} chunks) total {}",
                                f.bytes.len(),
                                f.chunks.len(),
                                m.new_bytes,
                                m.deduped_bytes,
                                m.defrag_prevented_dedup_bytes,
                                m.defrag_prevented_dedup_chunks,
                                m.total_bytes
                            );
                        }
                    }
                    return Err(format!(
                        "[sig:c11-not-deduplicated] session {si} ({} restart) reports new_bytes = {} of {total}, but only {outside} bytes of its chunks are absent from the store and {} bytes were withheld by fragmentation prevention",
                        if obs.sessions[si].client == 0 && s.cache_shards_after.is_empty() { "after" } else { "with/without" },
                        metrics.new_bytes,
                        metrics.defrag_prevented_dedup_bytes
                    ));
                }
                if all_known && metrics.defrag_prevented_dedup_bytes == 0 && total > 0 {
                    if metrics.new_bytes != 0 {
                        return Err(format!("[sig:c11-not-deduplicated] session {si} consists only of stored chunks, yet new_bytes = {}", metrics.new_bytes));
                    }
                    if !new_names.is_empty() {
                        return Err(format!("[sig:c11-new-xorb-for-known-data] session {si} consists only of stored chunks, yet created {} new xorb file(s)", new_names.len()));
                    }
                }
            }
            let from_final = source_xorbs.iter().any(|x| ffx.lock().unwrap().contains(*x));
            results2.lock().unwrap().push((all_known && total > 0, metrics.defrag_prevented_dedup_bytes > 0, source_xorbs.len(), from_final));
            Ok(())
        })),
        ..Default::default()
    };
    let obs = run_history(&h, opts)?;
    let res = results.lock().unwrap().clone();
    let mut nontrivial = false;
    for (si, (all_known, prevented, n_src, from_final)) in res.iter().enumerate() {
        if si >= n_first {
            if *all_known {
                info.label("later-session-only-stored-chunks");
                if *n_src >= 2 && *from_final {
                    nontrivial = true;
                }
            } else {
                info.label("later-session-with-fresh-chunks");
            }
            if *prevented {
                info.label("later-session-with-withheld-dedup");
            }
            for k in &kinds[si - n_first] {
                info.label(format!("derive:{k}"));
            }
            if h.sessions[si].restart_before {
                info.label("later-session-after-restart");
            }
            if h.sessions[..si].iter().any(|p| p.peer != h.sessions[si].peer) {
                info.label("later-session-after-session-of-another-process");
            }
        }
    }
    info.nontrivial_if(nontrivial);
    conf_labels(info, &obs.conf);
    info.note = Some(json!({"sessions": obs.sessions.len(), "first": n_first, "new_bytes": obs.sessions.iter().map(|s| s.finalize.as_ref().map(|m| m.0.new_bytes).unwrap_or(0)).collect::<Vec<_>>(),
        "total_bytes": obs.sessions.iter().map(|s| s.files.iter().map(|f| f.bytes.len()).sum::<usize>()).collect::<Vec<_>>()}));
    Ok(())
}

pub fn run(ctx: &Ctx) {
    if ctx.is_worker || ctx.replay.is_some() {
        ctx.explore("reupload", 1, 1, case_strategy, oracle);
    } else {
        run_confs(ctx, "reupload", ctx.tier.pick(16, 96), ctx.tier.pick(60, 300), false, &[]);
    }
}
