//! C14 Reported sizes and dedup metrics are conserved.

use proptest::prelude::*;
use serde::{Deserialize, Serialize};
use serde_json::json;

use super::sess::{conf_labels, run_confs};
use crate::engine::{journal, Case, Ctx};
use crate::session::{history_strategy, parse_pointer, run_history, Call, FaultPlan, History, RunOpts};

pub const RULE: &str = "histories as in C01 but biased to fragmented dedup patterns ([k known chunks][m fresh chunks] repeated, after an earlier session stored the known chunks) under small fragmentation-estimator windows, run through the tracing client with generated completion delays on store calls. Oracle per file: pointer size = total_bytes = bytes fed; new + deduped = total for bytes and chunks; total_chunks = reference chunk count; withheld (fragmentation prevention) <= new. Per session: every metric = sum over its files; xorb_bytes_uploaded = sum of the values the store's put returned; shard_bytes_uploaded = sum of shard bytes handed to upload_shard; total_bytes_uploaded = their sum. non-trivial = a file with withheld dedup chunks > 0, or a session in which a xorb upload that was in flight when finalize began completed afterwards; distinct by fingerprint of the generated case";

pub const ASSUMPTIONS: &[&str] = &[
    "the store's return value of put is 'bytes handed to the store' (the local store returns 0 for a xorb it already holds)",
    "upload completion order is perturbed by generated cooperative delays, not enumerated",
];

#[derive(Clone, Debug, Serialize, Deserialize)]
pub struct C14Case {
    pub history: History,
    pub delays: Vec<u8>,
}

fn case_strategy() -> impl Strategy<Value = C14Case> {
    (prop_oneof![3 => history_strategy(true, 3, 4), 1 => history_strategy(false, 3, 5)], proptest::collection::vec(0u8..6, 0..5)).prop_map(|(mut history, delays)| {
        // fragmentation needs known chunks: make the first session store a long run of the pool
        history.n_ids = history.n_ids.clamp(40, 400);
        // (sessions keep their generated client: cross-client sessions exercise the global-dedup counters)
        C14Case { history, delays }
    })
}

fn oracle(c: &C14Case, info: &mut Case) -> Result<(), String> {
    journal(&serde_json::to_string(c).unwrap_or_default());
    let mut plans = std::collections::BTreeMap::new();
    for si in 0..c.history.sessions.len() {
        plans.insert(si, FaultPlan { fail_calls: vec![], delays: c.delays.clone() });
    }
    let obs = run_history(&c.history, RunOpts { plans, ..Default::default() })?;
    let mut withheld_files = 0;
    let mut late_upload = false;
    for (si, s) in obs.sessions.iter().enumerate() {
        let (sm, _) = s.finalize.as_ref().map_err(|e| format!("[sig:c14-session-error] finalize failed without injected fault (session {si}): {e}"))?;
        let mut sum = deduplication::DeduplicationMetrics::default();
        for (fi, f) in s.files.iter().enumerate() {
            let (text, m) = f.finish.as_ref().map_err(|e| format!("[sig:c14-session-error] clean failed without injected fault: {e} {:?}", f.add_err))?;
            let (_, size) = parse_pointer(text).ok_or_else(|| "[sig:c14-pointer-text] pointer text lacks hash / filesize".to_string())?;
            let len = f.bytes.len();
            let who = format!("file {fi} of session {si} ({len} bytes, {} chunks)", f.chunks.len());
            if size != len as u64 {
                return Err(format!("[sig:c14-pointer-size] {who}: pointer records size {size}"));
            }
            if m.total_bytes != len {
                return Err(format!("[sig:c14-total-bytes] {who}: total_bytes = {} (new {}, deduped {}, withheld {})", m.total_bytes, m.new_bytes, m.deduped_bytes, m.defrag_prevented_dedup_bytes));
            }
            if m.total_chunks != f.chunks.len() {
                return Err(format!("[sig:c14-total-chunks] {who}: total_chunks = {}", m.total_chunks));
            }
            if m.new_bytes + m.deduped_bytes != m.total_bytes {
                return Err(format!("[sig:c14-bytes-sum] {who}: new {} + deduped {} != total {}", m.new_bytes, m.deduped_bytes, m.total_bytes));
            }
            if m.new_chunks + m.deduped_chunks != m.total_chunks {
                return Err(format!("[sig:c14-chunks-sum] {who}: new {} + deduped {} != total {}", m.new_chunks, m.deduped_chunks, m.total_chunks));
            }
            if m.defrag_prevented_dedup_bytes > m.new_bytes || m.defrag_prevented_dedup_chunks > m.new_chunks {
                return Err(format!(
                    "[sig:c14-withheld-not-subset] {who}: withheld {} bytes / {} chunks exceed new {} bytes / {} chunks",
                    m.defrag_prevented_dedup_bytes, m.defrag_prevented_dedup_chunks, m.new_bytes, m.new_chunks
                ));
            }
            // (not part of the property: a global-dedup hit may afterwards be withheld by fragmentation prevention)
            if m.deduped_bytes_by_global_dedup > m.deduped_bytes {
                info.label("observation:global-dedup-bytes-exceed-deduped-bytes");
            }
            if m.defrag_prevented_dedup_chunks > 0 {
                withheld_files += 1;
            }
            if m.deduped_chunks_by_global_dedup > 0 {
                info.label("file-deduped-through-global-dedup");
            }
            sum.merge_in(m);
        }
        // session = sum over files
        let pairs = [
            ("total_bytes", sm.total_bytes, sum.total_bytes),
            ("deduped_bytes", sm.deduped_bytes, sum.deduped_bytes),
            ("new_bytes", sm.new_bytes, sum.new_bytes),
            ("deduped_bytes_by_global_dedup", sm.deduped_bytes_by_global_dedup, sum.deduped_bytes_by_global_dedup),
            ("defrag_prevented_dedup_bytes", sm.defrag_prevented_dedup_bytes, sum.defrag_prevented_dedup_bytes),
            ("total_chunks", sm.total_chunks, sum.total_chunks),
            ("deduped_chunks", sm.deduped_chunks, sum.deduped_chunks),
            ("new_chunks", sm.new_chunks, sum.new_chunks),
            ("deduped_chunks_by_global_dedup", sm.deduped_chunks_by_global_dedup, sum.deduped_chunks_by_global_dedup),
            ("defrag_prevented_dedup_chunks", sm.defrag_prevented_dedup_chunks, sum.defrag_prevented_dedup_chunks),
        ];
        for (name, got, want) in pairs {
            if got != want {
                return Err(format!("[sig:c14-session-sum] session {si}: {name} = {got}, the sum over its {} files is {want}", s.files.len()));
            }
        }
        // upload byte counts against the call log
        let mut put_returned = 0u64;
        let mut shard_handed = 0u64;
        let mut finalize_seq = u64::MAX;
        let mut started_before_finalize: std::collections::BTreeSet<usize> = Default::default();
        for e in &s.log {
            match (&e.call, e.start) {
                (Call::Marker(m), _) if m == "finalize-start" => finalize_seq = e.seq,
                (Call::Put { .. }, true) => {
                    if finalize_seq == u64::MAX {
                        started_before_finalize.insert(e.call_index);
                    }
                },
                (Call::Put { .. }, false) => {
                    if let Some(Ok(v)) = &e.result {
                        put_returned += *v;
                    }
                    // an upload that was already in flight when finalize began and completed afterwards
                    if e.seq > finalize_seq && started_before_finalize.contains(&e.call_index) {
                        late_upload = true;
                    }
                },
                (Call::UploadShard { n_bytes, .. }, true) => shard_handed += *n_bytes as u64,
                _ => {},
            }
        }
        if sm.xorb_bytes_uploaded as u64 != put_returned {
            return Err(format!("[sig:c14-xorb-bytes-uploaded] session {si}: xorb_bytes_uploaded = {}, the store's put calls returned {put_returned} in total", sm.xorb_bytes_uploaded));
        }
        if sm.shard_bytes_uploaded as u64 != shard_handed {
            return Err(format!("[sig:c14-shard-bytes-uploaded] session {si}: shard_bytes_uploaded = {}, {shard_handed} shard bytes were handed to the store", sm.shard_bytes_uploaded));
        }
        if sm.total_bytes_uploaded != sm.xorb_bytes_uploaded + sm.shard_bytes_uploaded {
            return Err(format!("[sig:c14-total-uploaded] session {si}: total_bytes_uploaded = {} != xorb {} + shard {}", sm.total_bytes_uploaded, sm.xorb_bytes_uploaded, sm.shard_bytes_uploaded));
        }
    }
    info.nontrivial_if(withheld_files > 0 || late_upload);
    if withheld_files > 0 {
        info.label("file-with-withheld-dedup");
    }
    if late_upload {
        info.label("xorb-upload-in-flight-across-finalize-start");
    }
    if c.history.global_dedup {
        info.label("global-dedup-enabled");
    }
    conf_labels(info, &obs.conf);
    info.label(format!("conf:nranges={}", obs.conf.nranges));
    info.note = Some(json!({"sessions": obs.sessions.len(), "withheld_files": withheld_files,
        "metrics": obs.sessions.iter().map(|s| s.finalize.as_ref().map(|m| json!({"total": m.0.total_bytes, "new": m.0.new_bytes, "deduped": m.0.deduped_bytes, "withheld": m.0.defrag_prevented_dedup_bytes, "xorb_up": m.0.xorb_bytes_uploaded, "shard_up": m.0.shard_bytes_uploaded})).unwrap_or(json!(null))).collect::<Vec<_>>()}));
    Ok(())
}

pub fn run(ctx: &Ctx) {
    if ctx.is_worker || ctx.replay.is_some() {
        ctx.explore("metrics", 1, 1, case_strategy, oracle);
    } else {
        run_confs(ctx, "metrics", ctx.tier.pick(16, 96), ctx.tier.pick(60, 300), true, &[]);
    }
}
