//! C09 Shard files answer every lookup exactly as the data they were built from.

use std::io::Cursor;

use mdb_shard::cas_structs::MDBCASInfo;
use mdb_shard::file_structs::MDBFileInfo;
use mdb_shard::interpolation_search::search_on_sorted_u64s;
use mdb_shard::streaming_shard::{process_shard_stream, process_shard_stream_async, MDBMinimalShard};
use mdb_shard::MDBShardInfo;
use proptest::prelude::*;
use serde::{Deserialize, Serialize};
use serde_json::json;
use utils::serialization_utils::read_u32;

use crate::engine::{Case, Ctx, Sm64};
use crate::gen::shard::{key, materialize, mh, serialize, shard_spec, unkey, ShardSpec, K};
use crate::util::SlowReader;

pub const RULE: &str = "shard contents = sets of distinct-keyed file / xorb records (0..3000 files, 0..600 xorbs, 0..40 segments or chunks each and occasionally 70..130 segments of 60-64 MiB, i.e. files over 4 GiB; four flag combinations, empty records) whose truncated keys are engineered (0, 1, MAX-1, MAX, clustered windows, uniform, shared prefixes up to 7 per prefix); oracle = the map model the shard was built from: every present key returns exactly its record, absent / same-prefix / neighbouring-prefix keys return not-found, scans return all records in table order, sizes and totals match, the streaming (sync + async with generated read fragmentation, with both, either or none of the two callbacks) and minimal readers (all include-flag pairs, and their re-serialization) yield the same record bytes. Second stream: raw sorted (u64,u32) tables of 0..5000 keys with duplicate runs and extreme values against a linear-scan model of search_on_sorted_u64s. non-trivial = a lookup table of > 256 entries queried for a key (so the interpolation phase runs) with >= 2 records sharing its prefix, or a shard with >= 2 records sharing a prefix; for raw tables: > 256 entries and a queried key with >= 2 entries; distinct by fingerprint of the generated case Stream 'big-table': sorted tables of 0 .. 200 000 entries (count biased to 2^16 and its neighbours and to 2^k-1 / 2^k / 2^k+1), keys uniform over the whole u64 range or confined to its top or bottom sixteenth, probes = keys at positions with the same bias counted from both ends, their neighbours and the extremes; oracle = binary search on the key list; non-trivial there = more than 256 entries.";

pub const ASSUMPTIONS: &[&str] = &[
    "shard contents are sets of distinct keys (the quantifier ranges over contents, not insertion histories)",
    "at most seven file / xorb records share a truncated 64-bit prefix (documented limit of the lookup: eight or more is reported as a collision error by design)",
    "the all-ones hash (bookend sentinel) is not a key",
];

#[derive(Clone, Debug, Serialize, Deserialize)]
pub struct ShardCase {
    pub spec: ShardSpec,
    pub probe_seed: u64,
    pub frag: Vec<u16>,
}

fn shard_case() -> impl Strategy<Value = ShardCase> {
    (shard_spec(3000, 600), any::<u64>(), proptest::collection::vec(any::<u16>(), 1..5)).prop_map(|(spec, probe_seed, frag)| ShardCase { spec, probe_seed, frag })
}

fn ser_file(f: &MDBFileInfo) -> Vec<u8> {
    let mut v = Vec::new();
    f.serialize(&mut v).unwrap();
    v
}
fn ser_cas(c: &MDBCASInfo) -> Vec<u8> {
    let mut v = Vec::new();
    c.serialize(&mut v).unwrap();
    v
}

fn shard_oracle(c: &ShardCase, info: &mut Case) -> Result<(), String> {
    let model = materialize(&c.spec);
    let (buf, sinfo, mem) = serialize(&model)?;
    // sizes and totals
    if sinfo.num_bytes() != buf.len() as u64 {
        return Err(format!("[sig:c09-num-bytes] num_bytes() = {} but {} bytes were written", sinfo.num_bytes(), buf.len()));
    }
    if mem.shard_file_size() != buf.len() as u64 {
        return Err(format!("[sig:c09-shard-file-size] in-memory shard_file_size() = {} but the serialized shard has {} bytes", mem.shard_file_size(), buf.len()));
    }
    let loaded = MDBShardInfo::load_from_reader(&mut Cursor::new(&buf)).map_err(|e| format!("[sig:c09-load] {e}"))?;
    if loaded != sinfo {
        return Err("[sig:c09-load] load_from_reader returns different header/footer than serialize_from".into());
    }
    let mat: u64 = model.files.values().map(|f| f.segments.iter().map(|s| s.unpacked_segment_bytes as u64).sum::<u64>()).sum();
    let stored: u64 = model.xorbs.values().map(|x| x.metadata.num_bytes_in_cas as u64).sum();
    let on_disk: u64 = model.xorbs.values().map(|x| x.metadata.num_bytes_on_disk as u64).sum();
    if loaded.materialized_bytes() != mat || loaded.stored_bytes() != stored || loaded.stored_bytes_on_disk() != on_disk {
        return Err(format!(
            "[sig:c09-totals] footer totals (materialized {}, stored {}, on-disk {}) differ from the model sums ({mat}, {stored}, {on_disk})",
            loaded.materialized_bytes(),
            loaded.stored_bytes(),
            loaded.stored_bytes_on_disk()
        ));
    }
    if loaded.num_file_entries() != model.files.len() || loaded.num_cas_entries() != model.xorbs.len() || loaded.total_num_chunks() != model.n_chunks() {
        return Err("[sig:c09-counts] table entry counts differ from the model".into());
    }
    let mut rd = Cursor::new(&buf);
    // every file hash -> exactly its record
    let mut prefix_groups: std::collections::BTreeMap<u64, usize> = Default::default();
    for k in model.files.keys() {
        *prefix_groups.entry(k[0]).or_default() += 1;
    }
    let mut xprefix_groups: std::collections::BTreeMap<u64, usize> = Default::default();
    for k in model.xorbs.keys() {
        *xprefix_groups.entry(k[0]).or_default() += 1;
    }
    for (k, f) in &model.files {
        let got = loaded.get_file_reconstruction_info(&mut rd, &mh(&unkey(k))).map_err(|e| format!("[sig:c09-file-lookup-err] lookup of a present file failed: {e}"))?;
        match got {
            Some(g) if g == *f => {},
            Some(_) => return Err(format!("[sig:c09-file-lookup-wrong] lookup of file {:x?} returned a different record", k)),
            None => {
                return Err(format!(
                    "[sig:c09-file-lookup-missing] file {:016x}.. is in the shard but lookup says not found ({} files, {} sharing its prefix)",
                    k[0],
                    model.files.len(),
                    prefix_groups[&k[0]]
                ))
            },
        }
    }
    // absent keys: random, same prefix as a present one, neighbouring prefixes
    let mut r = Sm64(c.probe_seed);
    let present: Vec<K> = model.files.keys().cloned().collect();
    let mut absent: Vec<K> = Vec::new();
    for _ in 0..20 {
        absent.push([r.next(), r.next(), r.next(), r.next()]);
    }
    for k in present.iter().take(400).chain(model.xorbs.keys().take(50)) {
        absent.push([k[0], r.next(), r.next(), r.next()]);
        absent.push([k[0].wrapping_add(1), k[1], k[2], k[3]]);
        absent.push([k[0].wrapping_sub(1), k[1], k[2], k[3]]);
    }
    absent.push([0, 0, 0, 1]);
    absent.push([u64::MAX, u64::MAX, u64::MAX, 0]);
    for a in &absent {
        if model.files.contains_key(a) || *a == [u64::MAX; 4] {
            continue;
        }
        // a probe that would make 8 records share a prefix is answered with the documented collision error
        match loaded.get_file_reconstruction_info(&mut rd, &mh(&unkey(a))) {
            Ok(None) => {},
            Ok(Some(_)) => return Err(format!("[sig:c09-file-lookup-invented] lookup of an absent file hash {:x?} returned a record", a)),
            Err(e) => return Err(format!("[sig:c09-file-lookup-err] lookup of an absent file hash failed: {e}")),
        }
    }
    // every xorb via the cas lookup
    for (k, x) in &model.xorbs {
        let mut dest = [0u32; 8];
        let n = loaded.get_cas_info_index_by_hash(&mut rd, &mh(&unkey(k)), &mut dest).map_err(|e| format!("[sig:c09-cas-lookup-err] {e}"))?;
        let mut found = false;
        for i in 0..n {
            let off = loaded.metadata.cas_info_offset + 48 * dest[i] as u64;
            let mut cur = Cursor::new(&buf[off as usize..]);
            let ci = MDBCASInfo::deserialize(&mut cur).map_err(|e| format!("[sig:c09-cas-lookup-err] {e}"))?;
            match ci {
                Some(ci) if ci.metadata.cas_hash == mh(&unkey(k)) => {
                    if ci != *x {
                        return Err(format!("[sig:c09-cas-lookup-wrong] cas lookup for {:016x}.. leads to a different record", k[0]));
                    }
                    found = true;
                },
                Some(ci) => {
                    if ci.metadata.cas_hash[0] != k[0] {
                        return Err("[sig:c09-cas-lookup-wrong] cas lookup returned an index whose record has a different prefix".into());
                    }
                },
                None => return Err("[sig:c09-cas-lookup-wrong] cas lookup index points at the bookend".into()),
            }
        }
        if !found {
            return Err(format!("[sig:c09-cas-lookup-missing] xorb {:016x}.. is in the shard but the cas lookup does not lead to it ({} candidates)", k[0], n));
        }
    }
    for a in absent.iter().take(60) {
        if model.xorbs.contains_key(a) {
            continue;
        }
        let mut dest = [0u32; 8];
        let n = loaded.get_cas_info_index_by_hash(&mut rd, &mh(&unkey(a)), &mut dest).map_err(|e| format!("[sig:c09-cas-lookup-err] {e}"))?;
        let want = *xprefix_groups.get(&a[0]).unwrap_or(&0);
        if n != want {
            return Err(format!("[sig:c09-cas-lookup-count] cas lookup for an absent hash with prefix {:016x} returned {n} candidates, the table holds {want}", a[0]));
        }
    }
    // scans
    let files_scan = loaded.read_all_file_info_sections(&mut rd).map_err(|e| format!("[sig:c09-scan-err] {e}"))?;
    let want_files: Vec<MDBFileInfo> = model.files.values().cloned().collect();
    if files_scan != want_files {
        return Err(format!("[sig:c09-file-scan] read_all_file_info_sections returned {} records, model has {} (or order/content differs)", files_scan.len(), want_files.len()));
    }
    let cas_scan = loaded.read_all_cas_blocks_full(&mut rd).map_err(|e| format!("[sig:c09-scan-err] {e}"))?;
    let want_cas: Vec<MDBCASInfo> = model.xorbs.values().cloned().collect();
    if cas_scan != want_cas {
        return Err("[sig:c09-cas-scan] read_all_cas_blocks_full differs from the model".into());
    }
    let headers = loaded.read_all_cas_blocks(&mut rd).map_err(|e| format!("[sig:c09-scan-err] {e}"))?;
    if headers.len() != want_cas.len() || headers.iter().zip(want_cas.iter()).any(|(a, b)| a.0 != b.metadata) {
        return Err("[sig:c09-cas-scan] read_all_cas_blocks differs from the model".into());
    }
    // truncated hash table = recomputed, sorted by key
    let trunc = loaded.read_all_truncated_hashes(&mut rd).map_err(|e| format!("[sig:c09-scan-err] {e}"))?;
    let mut want_trunc: Vec<(u64, (u32, u32))> = Vec::new();
    let mut index = 0u32;
    for x in model.xorbs.values() {
        for (i, ch) in x.chunks.iter().enumerate() {
            want_trunc.push((ch.chunk_hash[0], (index, i as u32)));
        }
        index += 1 + x.chunks.len() as u32;
    }
    if trunc.windows(2).any(|w| w[0].0 > w[1].0) {
        return Err("[sig:c09-chunk-table-unsorted] the chunk lookup table is not sorted by key".into());
    }
    let mut a = trunc.clone();
    a.sort();
    want_trunc.sort();
    if a != want_trunc {
        return Err("[sig:c09-chunk-table] read_all_truncated_hashes differs from the recomputed table".into());
    }
    let full_cas_lookup = loaded.read_full_cas_lookup(&mut rd).map_err(|e| format!("[sig:c09-scan-err] {e}"))?;
    {
        let mut index = 0u32;
        let mut want = Vec::new();
        for (k, x) in &model.xorbs {
            want.push((k[0], index));
            index += 1 + x.chunks.len() as u32;
        }
        if full_cas_lookup != want {
            return Err("[sig:c09-cas-table] read_full_cas_lookup differs from the recomputed table".into());
        }
    }
    // file info ranges (streaming from the start)
    let ranges = MDBShardInfo::read_file_info_ranges(&mut Cursor::new(&buf)).map_err(|e| format!("[sig:c09-ranges-err] {e}"))?;
    if ranges.len() != want_files.len() {
        return Err("[sig:c09-ranges] read_file_info_ranges returns a different number of files".into());
    }
    for (rg, f) in ranges.iter().zip(want_files.iter()) {
        let n = f.segments.len() as u64;
        let ok = rg.0 == f.metadata.file_hash
            && rg.1 .1 - rg.1 .0 == 48 * n
            && rg.2.map(|v| v.1 - v.0) == if f.contains_verification() { Some(48 * n) } else { None }
            && rg.3 == f.metadata_ext.as_ref().map(|m| m.sha256);
        if !ok {
            return Err("[sig:c09-ranges] read_file_info_ranges disagrees with the model record".into());
        }
        let seg_bytes: Vec<u8> = f.segments.iter().flat_map(|s| {
            let mut v = Vec::new();
            s.serialize(&mut v).unwrap();
            v
        }).collect();
        if buf[rg.1 .0 as usize..rg.1 .1 as usize] != seg_bytes[..] {
            return Err("[sig:c09-ranges] the segment byte range does not hold the record's segments".into());
        }
    }
    // streaming readers
    let want_file_bytes: Vec<Vec<u8>> = want_files.iter().map(ser_file).collect();
    let want_cas_bytes: Vec<Vec<u8>> = want_cas.iter().map(ser_cas).collect();
    {
        let mut fb = Vec::new();
        let mut cb = Vec::new();
        process_shard_stream(
            &mut Cursor::new(&buf),
            Some(|v: mdb_shard::file_structs::MDBFileInfoView| {
                let mut b = Vec::new();
                v.serialize(&mut b)?;
                fb.push(b);
                Ok(())
            }),
            Some(|v: mdb_shard::cas_structs::MDBCASInfoView| {
                let mut b = Vec::new();
                v.serialize(&mut b)?;
                cb.push(b);
                Ok(())
            }),
        )
        .map_err(|e| format!("[sig:c09-stream-err] {e}"))?;
        if fb != want_file_bytes || cb != want_cas_bytes {
            return Err("[sig:c09-stream] process_shard_stream yields different records than the model".into());
        }
        let mut fb2 = Vec::new();
        let mut cb2 = Vec::new();
        let sizes: Vec<usize> = c.frag.iter().map(|s| 1 + (*s as usize % 200)).collect();
        let mut sr = SlowReader::new(&buf, sizes);
        futures::executor::block_on(process_shard_stream_async(
            &mut sr,
            Some(|v: mdb_shard::file_structs::MDBFileInfoView| {
                let mut b = Vec::new();
                v.serialize(&mut b)?;
                fb2.push(b);
                Ok(())
            }),
            Some(|v: mdb_shard::cas_structs::MDBCASInfoView| {
                let mut b = Vec::new();
                v.serialize(&mut b)?;
                cb2.push(b);
                Ok(())
            }),
        ))
        .map_err(|e| format!("[sig:c09-stream-err] async: {e}"))?;
        if fb2 != want_file_bytes || cb2 != want_cas_bytes {
            return Err("[sig:c09-stream-async] process_shard_stream_async yields different records than the model".into());
        }
    }
    // the streaming reader with only one of its two callbacks (the other section has to be skipped over), sync and async
    {
        type FF = fn(mdb_shard::file_structs::MDBFileInfoView) -> mdb_shard::error::Result<()>;
        type CF = fn(mdb_shard::cas_structs::MDBCASInfoView) -> mdb_shard::error::Result<()>;
        for (with_f, with_c) in [(true, false), (false, true), (false, false)] {
            for is_async in [false, true] {
                let mut fb = Vec::new();
                let mut cb = Vec::new();
                let fcb = |v: mdb_shard::file_structs::MDBFileInfoView| -> mdb_shard::error::Result<()> {
                    let mut b = Vec::new();
                    v.serialize(&mut b)?;
                    fb.push(b);
                    Ok(())
                };
                let ccb = |v: mdb_shard::cas_structs::MDBCASInfoView| -> mdb_shard::error::Result<()> {
                    let mut b = Vec::new();
                    v.serialize(&mut b)?;
                    cb.push(b);
                    Ok(())
                };
                let sizes: Vec<usize> = c.frag.iter().map(|s| 1 + (*s as usize % 300)).collect();
                let r = match (with_f, with_c, is_async) {
                    (true, false, false) => process_shard_stream(&mut Cursor::new(&buf), Some(fcb), None::<CF>),
                    (false, true, false) => process_shard_stream(&mut Cursor::new(&buf), None::<FF>, Some(ccb)),
                    (false, false, false) => process_shard_stream(&mut Cursor::new(&buf), None::<FF>, None::<CF>),
                    (true, false, true) => futures::executor::block_on(process_shard_stream_async(&mut SlowReader::new(&buf, sizes), Some(fcb), None::<CF>)),
                    (false, true, true) => futures::executor::block_on(process_shard_stream_async(&mut SlowReader::new(&buf, sizes), None::<FF>, Some(ccb))),
                    _ => futures::executor::block_on(process_shard_stream_async(&mut SlowReader::new(&buf, sizes), None::<FF>, None::<CF>)),
                };
                r.map_err(|e| format!("[sig:c09-stream-err] callbacks (files {with_f}, xorbs {with_c}, async {is_async}): {e}"))?;
                let want_f: &[Vec<u8>] = if with_f { &want_file_bytes } else { &[] };
                let want_c: &[Vec<u8>] = if with_c { &want_cas_bytes } else { &[] };
                if fb[..] != *want_f || cb[..] != *want_c {
                    return Err(format!(
                        "[sig:c09-stream-partial] streaming reader with callbacks (files {with_f}, xorbs {with_c}, async {is_async}) lists {} file / {} xorb records, the shard holds {} / {}",
                        fb.len(),
                        cb.len(),
                        want_f.len(),
                        want_c.len()
                    ));
                }
            }
        }
    }
    // minimal reader: all include-flag pairs, sync = async, and re-serialization re-loaded
    for (inc_f, inc_c) in [(true, true), (true, false), (false, true), (false, false)] {
        let ms = MDBMinimalShard::from_reader(&mut Cursor::new(&buf), inc_f, inc_c).map_err(|e| format!("[sig:c09-minimal-err] {e}"))?;
        let sizes: Vec<usize> = c.frag.iter().map(|s| 1 + (*s as usize % 500)).collect();
        let mut sr = SlowReader::new(&buf, sizes);
        let ms_async = futures::executor::block_on(MDBMinimalShard::from_reader_async(&mut sr, inc_f, inc_c)).map_err(|e| format!("[sig:c09-minimal-err] async: {e}"))?;
        if ms != ms_async {
            return Err(format!("[sig:c09-minimal-async] from_reader and from_reader_async differ (files {inc_f}, cas {inc_c})"));
        }
        let nf = if inc_f { want_files.len() } else { 0 };
        let nc = if inc_c { want_cas.len() } else { 0 };
        if ms.num_files() != nf || ms.num_cas() != nc {
            return Err(format!("[sig:c09-minimal-counts] minimal shard (files {inc_f}, cas {inc_c}) holds {} files / {} xorbs, expected {nf} / {nc}", ms.num_files(), ms.num_cas()));
        }
        for i in 0..ms.num_files() {
            let mut b = Vec::new();
            ms.file(i).serialize(&mut b).unwrap();
            if b != want_file_bytes[i] {
                return Err(format!("[sig:c09-minimal-file] minimal shard file record {i} differs from the model"));
            }
        }
        for i in 0..ms.num_cas() {
            let mut b = Vec::new();
            ms.cas(i).serialize(&mut b).unwrap();
            if b != want_cas_bytes[i] {
                return Err(format!("[sig:c09-minimal-cas] minimal shard xorb record {i} differs from the model"));
            }
        }
        let mut re = Vec::new();
        let n = ms.serialize(&mut re).map_err(|e| format!("[sig:c09-minimal-err] serialize: {e}"))?;
        let si = MDBShardInfo::load_from_reader(&mut Cursor::new(&re)).map_err(|e| format!("[sig:c09-minimal-reload] {e}"))?;
        let _ = n;
        if si.num_bytes() != re.len() as u64 {
            return Err("[sig:c09-minimal-reload] re-serialized minimal shard: num_bytes differs from its length".into());
        }
        // its byte totals are those of the records it kept
        let (wm, ws, wd) = (if inc_f { mat } else { 0 }, if inc_c { stored } else { 0 }, if inc_c { on_disk } else { 0 });
        if si.materialized_bytes() != wm || si.stored_bytes() != ws || si.stored_bytes_on_disk() != wd {
            return Err(format!(
                "[sig:c09-minimal-totals] re-serialized minimal shard (files {inc_f}, cas {inc_c}): footer totals (materialized {}, stored {}, on-disk {}) differ from the sums over its records ({wm}, {ws}, {wd})",
                si.materialized_bytes(),
                si.stored_bytes(),
                si.stored_bytes_on_disk()
            ));
        }
        let f2 = si.read_all_file_info_sections(&mut Cursor::new(&re)).map_err(|e| format!("[sig:c09-minimal-reload] {e}"))?;
        let c2 = si.read_all_cas_blocks_full(&mut Cursor::new(&re)).map_err(|e| format!("[sig:c09-minimal-reload] {e}"))?;
        if (inc_f && f2 != want_files) || (!inc_f && !f2.is_empty()) || (inc_c && c2 != want_cas) || (!inc_c && !c2.is_empty()) {
            return Err(format!("[sig:c09-minimal-reload] re-serialized minimal shard (files {inc_f}, cas {inc_c}) scans differently from the model"));
        }
    }

    let shared_f = prefix_groups.values().any(|n| *n >= 2);
    let shared_x = xprefix_groups.values().any(|n| *n >= 2);
    info.nontrivial_if((model.files.len() > 256 && shared_f) || shared_f || shared_x);
    if model.files.len() > 256 {
        info.label("file-table>256");
    }
    if model.xorbs.len() > 256 {
        info.label("cas-table>256");
    }
    if model.files.len() > 256 && shared_f {
        info.label("file-table>256-with-shared-prefix");
    }
    if shared_f || shared_x {
        info.label("shared-prefix");
    }
    if model.files.is_empty() && model.xorbs.is_empty() {
        info.label("empty-shard");
    }
    if model.files.values().any(|f| f.segments.iter().map(|s| s.unpacked_segment_bytes as u64).sum::<u64>() >= 1 << 32) {
        info.label("has-file-of-4GiB-or-more");
    }
    if model.files.values().any(|f| f.segments.is_empty()) || model.xorbs.values().any(|x| x.chunks.is_empty()) {
        info.label("has-empty-record");
    }
    let maxgrp = prefix_groups.values().chain(xprefix_groups.values()).max().copied().unwrap_or(0);
    info.label(format!("max-prefix-group={}", maxgrp));
    info.note = Some(json!({"files": model.files.len(), "xorbs": model.xorbs.len(), "chunks": model.n_chunks(), "bytes": buf.len()}));
    Ok(())
}

// ---------------------------------------------------------------------------------------------

#[derive(Clone, Debug, Serialize, Deserialize)]
pub struct TableCase {
    /// runs: (key kind, key value, run length)
    pub runs: Vec<(u8, u64, u8)>,
    pub buf_len: u8,
    pub probes: Vec<u64>,
}

fn table_case() -> impl Strategy<Value = TableCase> {
    let n = prop_oneof![2 => 0usize..6, 3 => 6usize..200, 4 => 200usize..1500, 1 => 1500usize..5000];
    (
        n.prop_flat_map(|n| proptest::collection::vec((0u8..8, any::<u64>(), prop_oneof![8 => Just(1u8), 2 => 2u8..6, 1 => 6u8..20]), n)),
        1u8..=8,
        proptest::collection::vec(any::<u64>(), 0..6),
    )
        .prop_map(|(runs, buf_len, probes)| TableCase { runs, buf_len, probes })
}

fn table_oracle(c: &TableCase, info: &mut Case) -> Result<(), String> {
    let mut keys: Vec<u64> = Vec::new();
    for (kind, v, run) in &c.runs {
        let k = match kind {
            0 => 0,
            1 => u64::MAX,
            2 => 1,
            3 => u64::MAX - 1,
            4 => 0x7000_0000_0000_0000 + (v % 64),
            _ => *v,
        };
        for _ in 0..*run {
            keys.push(k);
        }
    }
    keys.sort();
    if keys.len() > 6000 {
        keys.truncate(6000);
    }
    let mut table = Vec::with_capacity(keys.len() * 12 + 16);
    // a leading pad so that read_start != 0
    table.extend_from_slice(&[0xEE; 8]);
    for (i, k) in keys.iter().enumerate() {
        table.extend_from_slice(&k.to_le_bytes());
        table.extend_from_slice(&(i as u32).to_le_bytes());
    }
    table.extend_from_slice(&[0xDD; 8]);
    // probes: every distinct key when small, else generated picks + neighbours + absent
    let mut probes: Vec<u64> = Vec::new();
    let mut distinct = keys.clone();
    distinct.dedup();
    if distinct.len() <= 64 {
        probes.extend(distinct.iter());
    }
    let mut r = Sm64(c.probes.iter().fold(1u64, |a, b| a ^ b));
    for _ in 0..40 {
        if !distinct.is_empty() {
            let k = distinct[(r.next() % distinct.len() as u64) as usize];
            probes.push(k);
            probes.push(k.wrapping_add(1));
            probes.push(k.wrapping_sub(1));
        }
    }
    // long duplicate runs are the interesting ones
    let mut i = 0;
    while i < keys.len() {
        let mut j = i;
        while j < keys.len() && keys[j] == keys[i] {
            j += 1;
        }
        if j - i >= 2 {
            probes.push(keys[i]);
        }
        i = j;
    }
    probes.extend(c.probes.iter());
    probes.extend_from_slice(&[0, 1, u64::MAX, u64::MAX - 1]);
    let mut nontrivial = false;
    for p in probes {
        let want: Vec<u32> = keys.iter().enumerate().filter(|(_, k)| **k == p).map(|(i, _)| i as u32).collect();
        let mut out = vec![0u32; c.buf_len as usize];
        let n = search_on_sorted_u64s(&mut Cursor::new(&table), 8, keys.len() as u64, p, read_u32::<Cursor<&Vec<u8>>>, &mut out)
            .map_err(|e| format!("[sig:c09-search-err] search failed on a table of {} keys for key {p:#x}: {e}", keys.len()))?;
        let expect_n = want.len().min(out.len());
        if n != expect_n {
            return Err(format!(
                "[sig:c09-search-count] search for {p:#x} in a table of {} keys returned {n} values; the table holds {} (buffer {})",
                keys.len(),
                want.len(),
                out.len()
            ));
        }
        let mut got = out[..n].to_vec();
        got.sort();
        let before = got.len();
        got.dedup();
        if got.len() != before || got.iter().any(|v| !want.contains(v)) {
            return Err(format!("[sig:c09-search-values] search for {p:#x} returned values {:?} that are not (distinct) entries of that key {:?}", &out[..n], want));
        }
        if keys.len() > 256 && want.len() >= 2 {
            nontrivial = true;
        }
    }
    info.nontrivial_if(nontrivial);
    if keys.len() > 256 {
        info.label("raw-table>256");
    }
    if keys.is_empty() {
        info.label("raw-table-empty");
    }
    Ok(())
}

// ---- stream 'big-table': lookup tables with entry counts around and beyond 2^16 ----

#[derive(Clone, Debug, Serialize, Deserialize)]
pub struct BigTableCase {
    pub seed: u64,
    pub n: u32,
    /// 0 = keys uniform over the whole u64 range, 1 = confined to the top 1/16, 2 = to the bottom 1/16
    pub spread: u8,
    /// positions of the probed keys
    pub probes: Vec<u32>,
}

fn big_table_case() -> impl Strategy<Value = BigTableCase> {
    (
        any::<u64>(),
        prop_oneof![3 => 65_530u32..65_545, 3 => crate::gen::edge_u32(200_000), 1 => 0u32..3_000],
        0u8..3,
        proptest::collection::vec(crate::gen::edge_u32(200_000), 4..40),
    )
        .prop_map(|(seed, n, spread, probes)| BigTableCase { seed, n, spread, probes })
}

fn big_table_oracle(c: &BigTableCase, info: &mut Case) -> Result<(), String> {
    let mut r = Sm64(c.seed);
    let mut keys: Vec<u64> = (0..c.n)
        .map(|_| match c.spread {
            1 => u64::MAX - (r.next() >> 4),
            2 => r.next() >> 4,
            _ => r.next(),
        })
        .collect();
    keys.sort();
    let mut table = Vec::with_capacity(keys.len() * 12 + 16);
    table.extend_from_slice(&[0xEE; 8]);
    for (i, k) in keys.iter().enumerate() {
        table.extend_from_slice(&k.to_le_bytes());
        table.extend_from_slice(&(i as u32).to_le_bytes());
    }
    table.extend_from_slice(&[0xDD; 8]);
    let mut probes: Vec<u64> = vec![0, 1, u64::MAX, u64::MAX - 1];
    for p in &c.probes {
        if !keys.is_empty() {
            // positions counted from both ends, so that the top of the key range is probed as often as the bottom
            for i in [(*p as usize).min(keys.len() - 1), keys.len() - 1 - (*p as usize).min(keys.len() - 1)] {
                probes.push(keys[i]);
                probes.push(keys[i].wrapping_add(1));
                probes.push(keys[i].wrapping_sub(1));
            }
        }
    }
    for p in probes {
        let lo = keys.partition_point(|k| *k < p);
        let hi = keys.partition_point(|k| *k <= p);
        let mut out = vec![0u32; 8];
        let n = search_on_sorted_u64s(&mut Cursor::new(&table), 8, keys.len() as u64, p, read_u32::<Cursor<&Vec<u8>>>, &mut out)
            .map_err(|e| format!("[sig:c09-search-err] search failed on a table of {} keys for key {p:#x}: {e}", keys.len()))?;
        if n != (hi - lo).min(out.len()) {
            return Err(format!("[sig:c09-search-count] search for {p:#x} in a table of {} keys returned {n} values; the table holds {}", keys.len(), hi - lo));
        }
        let mut got = out[..n].to_vec();
        got.sort();
        got.dedup();
        if got.len() != n || got.iter().any(|v| (*v as usize) < lo || (*v as usize) >= hi) {
            return Err(format!("[sig:c09-search-values] search for {p:#x} in a table of {} keys returned values {:?}; the entries of that key are {lo}..{hi}", keys.len(), &out[..n]));
        }
    }
    info.label(match keys.len() {
        0..=255 => "big-table<=255",
        256..=65_535 => "big-table-256..65535",
        _ => "big-table>=65536",
    });
    info.nontrivial_if(keys.len() > 256);
    Ok(())
}

pub fn run(ctx: &Ctx) {
    ctx.explore("shard", ctx.tier.pick(6_000, 60_000), 16, shard_case, shard_oracle);
    ctx.explore("table", ctx.tier.pick(80_000, 1_200_000), 16, table_case, table_oracle);
    ctx.explore("big-table", ctx.tier.pick(800, 24_000), 16, big_table_case, big_table_oracle);
}
