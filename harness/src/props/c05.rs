//! C05 Deduplication answers are truthful.

use std::collections::BTreeMap;
use std::io::Cursor;
use std::path::Path;
use std::sync::Arc;
use std::time::Duration;

use mdb_shard::cas_structs::MDBCASInfo;
use mdb_shard::file_structs::FileDataSequenceEntry;
use mdb_shard::session_directory::consolidate_shards_in_directory;
use mdb_shard::shard_in_memory::MDBInMemoryShard;
use mdb_shard::{MDBShardFile, MDBShardInfo, ShardFileManager};
use merklehash::MerkleHash;
use proptest::prelude::*;
use serde::{Deserialize, Serialize};
use serde_json::json;

use crate::engine::{idx, Case, Ctx, Sm64};
use crate::gen::shard::{key, materialize, mh, shard_spec, unkey, ShardModel, ShardSpec, K};
use crate::refs::merkle::{self as rm, H};

pub const RULE: &str = "universe = generated set of xorb records (chunk hashes with engineered truncated-prefix collisions, the same chunk lists under several xorbs, 0..thousands of chunks); three surfaces: MDBInMemoryShard, MDBShardInfo over the serialized shard, and ShardFileManager histories {add xorb, flush, plant an unkeyed shard, plant an HMAC-keyed export (1-3 keys, all include-flag combinations), re-open, consolidate}; queries = runs that are present, absent, partially matching, starting mid-xorb, running past the xorb end, or starting with a hash that only shares the 64-bit prefix of a stored chunk. Oracle (soundness of positives): Some((n, entry)) implies 1 <= n <= |query|, entry names a universe xorb, [start, start+n) lies inside it, its chunk hashes there equal the first n query hashes and the byte count is the sum of those chunk lengths. non-trivial = a positive answer with n >= 2, or a query whose first truncated prefix collides with a different stored chunk; distinct by fingerprint of the generated case";

pub const ASSUMPTIONS: &[&str] = &[
    "queries are non-empty (every caller passes at least one hash)",
    "a xorb hash identifies one chunk list (content addressing)",
    "completeness (a present run is found) is reported as a hit rate, not asserted: the property states soundness of positives only",
    "consolidation is applied to directories of unkeyed shards only (its only caller)",
];

#[derive(Clone, Debug, Serialize, Deserialize)]
pub struct Query {
    /// which xorb of the universe the run is taken from
    pub xorb: u16,
    pub start: u16,
    pub len: u16,
    /// 0 plain, 1 append absent hash, 2 append start of another xorb, 3 replace a middle hash by an absent one,
    /// 4 first hash replaced by an absent hash with the same 64-bit prefix, 5 fully absent,
    /// 6 run to the xorb end followed by the hash of the record that follows it in table order
    pub twist: u8,
    pub other: u16,
    pub seed: u64,
}

#[derive(Clone, Debug, Serialize, Deserialize)]
pub enum Op {
    AddXorb(u16),
    Flush,
    PlantShard { pick: u64 },
    PlantKeyed { pick: u64, key: u8, file_info: bool, cas_lookup: bool, chunk_lookup: bool },
    Reopen,
    Consolidate { threshold_kb: u16 },
    Query(Query),
}

#[derive(Clone, Debug, Serialize, Deserialize)]
pub struct PureCase {
    pub spec: ShardSpec,
    pub queries: Vec<Query>,
}

#[derive(Clone, Debug, Serialize, Deserialize)]
pub struct HistCase {
    pub spec: ShardSpec,
    pub ops: Vec<Op>,
}

fn query_strategy() -> impl Strategy<Value = Query> {
    (any::<u16>(), any::<u16>(), prop_oneof![3 => 0u16..3, 3 => 0u16..2000, 1 => any::<u16>()], 0u8..7, any::<u16>(), any::<u64>())
        .prop_map(|(xorb, start, len, twist, other, seed)| Query { xorb, start, len, twist, other, seed })
}

fn op_strategy() -> impl Strategy<Value = Op> {
    prop_oneof![
        5 => any::<u16>().prop_map(Op::AddXorb),
        2 => Just(Op::Flush),
        2 => any::<u64>().prop_map(|pick| Op::PlantShard { pick }),
        3 => (any::<u64>(), 0u8..3, any::<bool>(), any::<bool>(), any::<bool>())
            .prop_map(|(pick, key, file_info, cas_lookup, chunk_lookup)| Op::PlantKeyed { pick, key, file_info, cas_lookup, chunk_lookup }),
        1 => Just(Op::Reopen),
        1 => any::<u16>().prop_map(|threshold_kb| Op::Consolidate { threshold_kb }),
        12 => query_strategy().prop_map(Op::Query),
    ]
}

fn pure_case() -> impl Strategy<Value = PureCase> {
    (shard_spec(20, 600), proptest::collection::vec(query_strategy(), 10..40)).prop_map(|(spec, queries)| PureCase { spec, queries })
}

fn hist_case() -> impl Strategy<Value = HistCase> {
    (shard_spec(5, 300), proptest::collection::vec(op_strategy(), 5..45)).prop_map(|(spec, ops)| HistCase { spec, ops })
}

pub struct Universe {
    pub xorbs: Vec<(K, MDBCASInfo)>,
    pub by_key: BTreeMap<K, usize>,
    /// truncated prefix -> set of full chunk hashes having it
    pub prefix_index: BTreeMap<u64, Vec<K>>,
}

impl Universe {
    pub fn new(m: &ShardModel) -> Self {
        let xorbs: Vec<(K, MDBCASInfo)> = m.xorbs.iter().filter(|(_, x)| !x.chunks.is_empty()).map(|(k, v)| (*k, v.clone())).collect();
        let by_key = xorbs.iter().enumerate().map(|(i, (k, _))| (*k, i)).collect();
        let mut prefix_index: BTreeMap<u64, Vec<K>> = BTreeMap::new();
        for (_, x) in &xorbs {
            for c in &x.chunks {
                let k: K = *c.chunk_hash;
                let e = prefix_index.entry(k[0]).or_default();
                if !e.contains(&k) {
                    e.push(k);
                }
            }
        }
        Universe { xorbs, by_key, prefix_index }
    }

    /// build the query hash list; returns (hashes, expected_present_run_len, collides)
    pub fn build_query(&self, q: &Query) -> (Vec<MerkleHash>, bool) {
        let mut r = Sm64(q.seed);
        let absent = |r: &mut Sm64| -> MerkleHash { MerkleHash::from([r.next(), r.next(), r.next() | 1, 0x1234_5678_9abc_def0]) };
        if self.xorbs.is_empty() || q.twist % 7 == 5 {
            let n = 1 + (q.len as usize % 5);
            return ((0..n).map(|_| absent(&mut r)).collect(), false);
        }
        let (_, x) = &self.xorbs[idx(q.xorb, self.xorbs.len())];
        let n = x.chunks.len();
        let s = idx(q.start, n);
        let l = 1 + (q.len as usize % (n - s + 2)).min(n - s - 1 + 1).min(n - s);
        let l = l.max(1).min(n - s);
        let mut hashes: Vec<MerkleHash> = x.chunks[s..s + l].iter().map(|c| c.chunk_hash).collect();
        let mut collides = false;
        match q.twist % 7 {
            6 => {
                // run to the end of x, then the *record header hash* that follows x in table order: a
                // reader that runs past the end of x would compare against exactly that value
                hashes = x.chunks[s..].iter().map(|c| c.chunk_hash).collect();
                let xi = idx(q.xorb, self.xorbs.len());
                let next = if xi + 1 < self.xorbs.len() { unkey(&self.xorbs[xi + 1].0) } else { [0xffu8; 32] };
                hashes.push(mh(&next));
            },
            1 => hashes.push(absent(&mut r)),
            2 => {
                let (_, y) = &self.xorbs[idx(q.other, self.xorbs.len())];
                // run to the very end of x, then continue with another xorb's start
                hashes = x.chunks[s..].iter().map(|c| c.chunk_hash).collect();
                hashes.extend(y.chunks.iter().take(3).map(|c| c.chunk_hash));
            },
            3 => {
                if hashes.len() >= 2 {
                    let m = 1 + idx(q.other, hashes.len() - 1);
                    hashes[m] = absent(&mut r);
                }
            },
            4 => {
                let p = hashes[0][0];
                hashes[0] = MerkleHash::from([p, r.next(), r.next(), r.next() | 1]);
                collides = true;
            },
            _ => {},
        }
        // natural collisions: the first hash shares its prefix with a different stored chunk
        if let Some(v) = self.prefix_index.get(&hashes[0][0]) {
            let k0: K = *hashes[0];
            if v.iter().any(|k| *k != k0) {
                collides = true;
            }
        }
        (hashes, collides)
    }

    /// soundness oracle for one answer; `keyed` = the HMAC key the answering shard uses, if known
    pub fn check_answer(&self, surface: &str, query: &[MerkleHash], ans: &Option<(usize, FileDataSequenceEntry)>) -> Result<usize, String> {
        let Some((n, fse)) = ans else { return Ok(0) };
        let n = *n;
        if n == 0 || n > query.len() {
            return Err(format!("[sig:c05-count] {surface}: reported match count {n} for a query of {} hashes", query.len()));
        }
        let xk: K = *fse.cas_hash;
        let Some(xi) = self.by_key.get(&xk) else {
            return Err(format!("[sig:c05-unknown-xorb] {surface}: answer names xorb {:016x}.. which holds none of the data", xk[0]));
        };
        let x = &self.xorbs[*xi].1;
        let (s, e) = (fse.chunk_index_start as usize, fse.chunk_index_end as usize);
        if e != s + n || e > x.chunks.len() {
            return Err(format!("[sig:c05-range] {surface}: answer range [{s},{e}) with count {n} does not fit xorb of {} chunks", x.chunks.len()));
        }
        for i in 0..n {
            if x.chunks[s + i].chunk_hash != query[i] {
                return Err(format!(
                    "[sig:c05-untruthful] {surface}: answer says query[{i}] is chunk {} of xorb {:016x}.., but that chunk has a different hash (same 64-bit prefix: {})",
                    s + i,
                    xk[0],
                    x.chunks[s + i].chunk_hash[0] == query[i][0]
                ));
            }
        }
        let bytes: u64 = x.chunks[s..e].iter().map(|c| c.unpacked_segment_bytes as u64).sum();
        if fse.unpacked_segment_bytes as u64 != bytes {
            return Err(format!("[sig:c05-bytes] {surface}: reported {} bytes, the chunks sum to {bytes}", fse.unpacked_segment_bytes));
        }
        Ok(n)
    }
}

fn pure_oracle(c: &PureCase, info: &mut Case) -> Result<(), String> {
    let model = materialize(&c.spec);
    let uni = Universe::new(&model);
    let mem = model.to_in_memory();
    let mut buf = Vec::new();
    let sinfo = MDBShardInfo::serialize_from(&mut buf, &mem).map_err(|e| format!("[sig:c05-serialize] {e}"))?;
    let mut positives2 = 0;
    let mut collide_q = 0;
    let mut hits = 0;
    let mut expected = 0;
    for q in &c.queries {
        let (hashes, collides) = uni.build_query(q);
        let a1 = mem.chunk_hash_dedup_query(&hashes);
        let n1 = uni.check_answer("in-memory shard", &hashes, &a1)?;
        let a2 = sinfo.chunk_hash_dedup_query(&mut Cursor::new(&buf), &hashes).map_err(|e| format!("[sig:c05-query-err] serialized shard query failed: {e}"))?;
        let n2 = uni.check_answer("serialized shard", &hashes, &a2)?;
        if n1 >= 2 || n2 >= 2 {
            positives2 += 1;
        }
        if collides {
            collide_q += 1;
        }
        if q.twist % 7 <= 3 && !uni.xorbs.is_empty() {
            expected += 1;
            if n2 >= 1 {
                hits += 1;
            }
        }
    }
    info.nontrivial_if(positives2 > 0 || collide_q > 0);
    if positives2 > 0 {
        info.label("has-positive-n>=2");
    }
    if collide_q > 0 {
        info.label("has-colliding-prefix-query");
    }
    if model.n_chunks() > 256 {
        info.label("chunk-table>256");
    }
    info.note = Some(json!({"xorbs": uni.xorbs.len(), "chunks": model.n_chunks(), "queries": c.queries.len(), "expected_present": expected, "hits": hits}));
    Ok(())
}

// ---------------------------------------------------------------------------------------------

fn subset(uni: &Universe, pick: u64) -> Vec<usize> {
    let mut r = Sm64(pick);
    let n = uni.xorbs.len();
    if n == 0 {
        return vec![];
    }
    let want = 1 + (r.next() % (n as u64).min(12)) as usize;
    let mut v: Vec<usize> = (0..want).map(|_| (r.next() % n as u64) as usize).collect();
    v.sort();
    v.dedup();
    v
}

fn write_plain_shard(uni: &Universe, which: &[usize], dir: &Path) -> Result<std::path::PathBuf, String> {
    let mut s = MDBInMemoryShard::default();
    for i in which {
        s.add_cas_block(uni.xorbs[*i].1.clone()).map_err(|e| format!("{e}"))?;
    }
    s.write_to_directory(dir).map_err(|e| format!("[sig:c05-write-shard] {e}"))
}

pub fn key_of(j: u8) -> H {
    let mut k = [0u8; 32];
    Sm64(0xbeef + j as u64).fill(&mut k);
    k
}

fn hist_oracle(c: &HistCase, info: &mut Case) -> Result<(), String> {
    let model = materialize(&c.spec);
    let uni = Universe::new(&model);
    let rt = tokio::runtime::Builder::new_current_thread().enable_all().build().unwrap();
    let tmp = tempfile::tempdir().map_err(|e| e.to_string())?;
    let dir = tmp.path().join("shards");
    let scratch = tmp.path().join("scratch");
    std::fs::create_dir_all(&scratch).map_err(|e| e.to_string())?;
    let mut positives2 = 0;
    let mut collide_q = 0;
    let mut expected = 0;
    let mut hits = 0;
    let mut have_keyed = false;
    let mut n_keys = std::collections::BTreeSet::new();
    let mut known: std::collections::BTreeSet<usize> = Default::default();
    let mut labels: Vec<&'static str> = Vec::new();
    let res: Result<(), String> = rt.block_on(async {
        let mut mgr: Arc<ShardFileManager> = ShardFileManager::new_in_session_directory(&dir).await.map_err(|e| format!("[sig:c05-mgr] {e}"))?;
        for op in &c.ops {
            match op {
                Op::AddXorb(i) => {
                    if uni.xorbs.is_empty() {
                        continue;
                    }
                    let k = idx(*i, uni.xorbs.len());
                    mgr.add_cas_block(uni.xorbs[k].1.clone()).await.map_err(|e| format!("[sig:c05-add] {e}"))?;
                    known.insert(k);
                },
                Op::Flush => {
                    mgr.flush().await.map_err(|e| format!("[sig:c05-flush] {e}"))?;
                },
                Op::PlantShard { pick } => {
                    let which = subset(&uni, *pick);
                    if which.is_empty() {
                        continue;
                    }
                    write_plain_shard(&uni, &which, &dir)?;
                    mgr.refresh_shard_dir().await.map_err(|e| format!("[sig:c05-refresh] {e}"))?;
                    known.extend(which);
                    labels.push("op-plant");
                },
                Op::PlantKeyed { pick, key, file_info, cas_lookup, chunk_lookup } => {
                    let which = subset(&uni, *pick);
                    if which.is_empty() {
                        continue;
                    }
                    let p = write_plain_shard(&uni, &which, &scratch)?;
                    let sf = MDBShardFile::load_from_file(&p).map_err(|e| format!("[sig:c05-load] {e}"))?;
                    let kk = key_of(*key);
                    sf.export_as_keyed_shard(&dir, mh(&kk), Duration::from_secs(3600), *file_info, *cas_lookup, *chunk_lookup)
                        .map_err(|e| format!("[sig:c05-export] {e}"))?;
                    mgr.refresh_shard_dir().await.map_err(|e| format!("[sig:c05-refresh] {e}"))?;
                    have_keyed = true;
                    n_keys.insert(*key);
                    known.extend(which);
                    labels.push("op-plant-keyed");
                    if !*chunk_lookup {
                        labels.push("keyed-without-chunk-table");
                    }
                },
                Op::Reopen => {
                    mgr.flush().await.map_err(|e| format!("[sig:c05-flush] {e}"))?;
                    mgr = ShardFileManager::new_in_session_directory(&dir).await.map_err(|e| format!("[sig:c05-mgr] {e}"))?;
                    labels.push("op-reopen");
                },
                Op::Consolidate { threshold_kb } => {
                    if have_keyed {
                        continue;
                    }
                    mgr.flush().await.map_err(|e| format!("[sig:c05-flush] {e}"))?;
                    let th = 400 + (*threshold_kb as u64 % 512) * 1024;
                    consolidate_shards_in_directory(&dir, th).map_err(|e| format!("[sig:c05-consolidate] {e}"))?;
                    mgr = ShardFileManager::new_in_session_directory(&dir).await.map_err(|e| format!("[sig:c05-mgr] {e}"))?;
                    labels.push("op-consolidate");
                },
                Op::Query(q) => {
                    let (hashes, collides) = uni.build_query(q);
                    let a = mgr.chunk_hash_dedup_query(&hashes).await.map_err(|e| format!("[sig:c05-query-err] manager query failed: {e}"))?;
                    let n = uni.check_answer("shard manager", &hashes, &a)?;
                    if n >= 2 {
                        positives2 += 1;
                    }
                    if collides {
                        collide_q += 1;
                    }
                    if q.twist % 7 <= 3 && !uni.xorbs.is_empty() && known.contains(&idx(q.xorb, uni.xorbs.len())) {
                        expected += 1;
                        if n >= 1 {
                            hits += 1;
                        }
                    }
                },
            }
        }
        Ok(())
    });
    res?;
    info.nontrivial_if(positives2 > 0 || collide_q > 0);
    labels.sort();
    labels.dedup();
    for l in labels {
        info.label(l);
    }
    if positives2 > 0 {
        info.label("has-positive-n>=2");
    }
    if collide_q > 0 {
        info.label("has-colliding-prefix-query");
    }
    if n_keys.len() >= 2 {
        info.label("two-or-more-hmac-keys");
    }
    if expected > 0 {
        info.label(if hits == expected { "all-expected-runs-found" } else { "some-expected-runs-not-found" });
    }
    info.note = Some(json!({"xorbs": uni.xorbs.len(), "ops": c.ops.len(), "expected_present": expected, "hits": hits}));
    let _ = rm::chunk_hash; // (reference module kept in scope for keyed variants)
    let _ = (key, unkey);
    Ok(())
}

pub fn run(ctx: &Ctx) {
    ctx.explore("pure", ctx.tier.pick(24_000, 1_000_000), 16, pure_case, pure_oracle);
    ctx.explore("history", ctx.tier.pick(12_000, 500_000), 16, hist_case, hist_oracle);
}
