//! C05 Deduplication answers are truthful.

use std::collections::BTreeMap;
use std::io::Cursor;
use std::path::Path;
use std::sync::Arc;
use std::time::Duration;

use mdb_shard::cas_structs::MDBCASInfo;
use mdb_shard::file_structs::FileDataSequenceEntry;
use mdb_shard::session_directory::consolidate_shards_in_directory;
use mdb_shard::shard_in_memory::MDBInMemoryShard;
use mdb_shard::{MDBShardFile, MDBShardInfo, ShardFileManager};
use merklehash::MerkleHash;
use proptest::prelude::*;
use serde::{Deserialize, Serialize};
use serde_json::json;

use crate::engine::{idx, Case, Ctx, Sm64};
use crate::gen::shard::{key, materialize, mh, shard_spec, unkey, ShardModel, ShardSpec, K};
use crate::refs::merkle::{self as rm, H};

pub const RULE: &str = "universe = generated set of xorb records (chunk hashes with engineered truncated-prefix collisions, the same chunk lists under several xorbs, 0..thousands of chunks); three surfaces: MDBInMemoryShard, MDBShardInfo over the serialized shard, and ShardFileManager histories {add xorb, flush, plant an unkeyed shard, plant an HMAC-keyed export (1-3 keys, all include-flag combinations), re-open, consolidate}; queries = runs that are present, absent, partially matching, starting mid-xorb, running past the xorb end, or starting with a hash that only shares the 64-bit prefix of a stored chunk. Oracle (soundness of positives): Some((n, entry)) implies 1 <= n <= |query|, entry names a universe xorb, [start, start+n) lies inside it, its chunk hashes there equal the first n query hashes and the byte count is the sum of those chunk lengths. non-trivial = a positive answer with n >= 2, or a query whose first truncated prefix collides with a different stored chunk; distinct by fingerprint of the generated case Streams 'deduper-3' / 'deduper' / 'deduper-wide' (child processes with MAX_XORB_CHUNKS = 3 / 8192 / 200 000): FileDeduper, the per-file deduplicator, is driven with one file = 1-9 elements {n fresh chunks (n biased to 2^k-1 / 2^k / 2^k+1 up to 140 000 in the wide configuration), a run of a known xorb, a repeat of earlier chunks of the file at a position with the same bias} of 4-8 byte chunks, split into generated process_chunks calls, against a data interface that answers from 0-3 known xorbs truthfully by construction (some of them only after a completed global dedup query); oracle: every segment of the file record returned by finalize names a xorb of the index, a xorb the file cut, or the xorb still being built, its chunk range lies inside that xorb, the hashes at those positions are the file's chunk hashes in order, its byte count is their sum, and the segments cover the file exactly; non-trivial there = >= 2 segments with an index hit or two segments into the file's own xorbs.";

pub const ASSUMPTIONS: &[&str] = &[
    "queries are non-empty (every caller passes at least one hash)",
    "a xorb hash identifies one chunk list (content addressing)",
    "completeness (a present run is found) is reported as a hit rate, not asserted: the property states soundness of positives only",
    "consolidation is applied to directories of unkeyed shards only (its only caller)",
];

#[derive(Clone, Debug, Serialize, Deserialize)]
pub struct Query {
    /// which xorb of the universe the run is taken from
    pub xorb: u16,
    pub start: u16,
    pub len: u16,
    /// 0 plain, 1 append absent hash, 2 append start of another xorb, 3 replace a middle hash by an absent one,
    /// 4 first hash replaced by an absent hash with the same 64-bit prefix, 5 fully absent,
    /// 6 run to the xorb end followed by the hash of the record that follows it in table order
    pub twist: u8,
    pub other: u16,
    pub seed: u64,
}

#[derive(Clone, Debug, Serialize, Deserialize)]
pub enum Op {
    AddXorb(u16),
    Flush,
    PlantShard { pick: u64 },
    PlantKeyed { pick: u64, key: u8, file_info: bool, cas_lookup: bool, chunk_lookup: bool },
    Reopen,
    Consolidate { threshold_kb: u16 },
    Query(Query),
}

#[derive(Clone, Debug, Serialize, Deserialize)]
pub struct PureCase {
    pub spec: ShardSpec,
    pub queries: Vec<Query>,
}

#[derive(Clone, Debug, Serialize, Deserialize)]
pub struct HistCase {
    pub spec: ShardSpec,
    pub ops: Vec<Op>,
}

fn query_strategy() -> impl Strategy<Value = Query> {
    (any::<u16>(), any::<u16>(), prop_oneof![3 => 0u16..3, 3 => 0u16..2000, 1 => any::<u16>()], 0u8..7, any::<u16>(), any::<u64>())
        .prop_map(|(xorb, start, len, twist, other, seed)| Query { xorb, start, len, twist, other, seed })
}

fn op_strategy() -> impl Strategy<Value = Op> {
    prop_oneof![
        5 => any::<u16>().prop_map(Op::AddXorb),
        2 => Just(Op::Flush),
        2 => any::<u64>().prop_map(|pick| Op::PlantShard { pick }),
        3 => (any::<u64>(), 0u8..3, any::<bool>(), any::<bool>(), any::<bool>())
            .prop_map(|(pick, key, file_info, cas_lookup, chunk_lookup)| Op::PlantKeyed { pick, key, file_info, cas_lookup, chunk_lookup }),
        1 => Just(Op::Reopen),
        1 => any::<u16>().prop_map(|threshold_kb| Op::Consolidate { threshold_kb }),
        12 => query_strategy().prop_map(Op::Query),
    ]
}

fn pure_case() -> impl Strategy<Value = PureCase> {
    (shard_spec(20, 600), proptest::collection::vec(query_strategy(), 10..40)).prop_map(|(spec, queries)| PureCase { spec, queries })
}

fn hist_case() -> impl Strategy<Value = HistCase> {
    (shard_spec(5, 300), proptest::collection::vec(op_strategy(), 5..45)).prop_map(|(spec, ops)| HistCase { spec, ops })
}

pub struct Universe {
    pub xorbs: Vec<(K, MDBCASInfo)>,
    pub by_key: BTreeMap<K, usize>,
    /// truncated prefix -> set of full chunk hashes having it
    pub prefix_index: BTreeMap<u64, Vec<K>>,
}

impl Universe {
    pub fn new(m: &ShardModel) -> Self {
        let xorbs: Vec<(K, MDBCASInfo)> = m.xorbs.iter().filter(|(_, x)| !x.chunks.is_empty()).map(|(k, v)| (*k, v.clone())).collect();
        let by_key = xorbs.iter().enumerate().map(|(i, (k, _))| (*k, i)).collect();
        let mut prefix_index: BTreeMap<u64, Vec<K>> = BTreeMap::new();
        for (_, x) in &xorbs {
            for c in &x.chunks {
                let k: K = *c.chunk_hash;
                let e = prefix_index.entry(k[0]).or_default();
                if !e.contains(&k) {
                    e.push(k);
                }
            }
        }
        Universe { xorbs, by_key, prefix_index }
    }

    /// build the query hash list; returns (hashes, expected_present_run_len, collides)
    pub fn build_query(&self, q: &Query) -> (Vec<MerkleHash>, bool) {
        let mut r = Sm64(q.seed);
        let absent = |r: &mut Sm64| -> MerkleHash { MerkleHash::from([r.next(), r.next(), r.next() | 1, 0x1234_5678_9abc_def0]) };
        if self.xorbs.is_empty() || q.twist % 7 == 5 {
            let n = 1 + (q.len as usize % 5);
            return ((0..n).map(|_| absent(&mut r)).collect(), false);
        }
        let (_, x) = &self.xorbs[idx(q.xorb, self.xorbs.len())];
        let n = x.chunks.len();
        let s = idx(q.start, n);
        let l = 1 + (q.len as usize % (n - s + 2)).min(n - s - 1 + 1).min(n - s);
        let l = l.max(1).min(n - s);
        let mut hashes: Vec<MerkleHash> = x.chunks[s..s + l].iter().map(|c| c.chunk_hash).collect();
        let mut collides = false;
        match q.twist % 7 {
            6 => {
                // run to the end of x, then the *record header hash* that follows x in table order: a
                // reader that runs past the end of x would compare against exactly that value
                hashes = x.chunks[s..].iter().map(|c| c.chunk_hash).collect();
                let xi = idx(q.xorb, self.xorbs.len());
                let next = if xi + 1 < self.xorbs.len() { unkey(&self.xorbs[xi + 1].0) } else { [0xffu8; 32] };
                hashes.push(mh(&next));
            },
            1 => hashes.push(absent(&mut r)),
            2 => {
                let (_, y) = &self.xorbs[idx(q.other, self.xorbs.len())];
                // run to the very end of x, then continue with another xorb's start
                hashes = x.chunks[s..].iter().map(|c| c.chunk_hash).collect();
                hashes.extend(y.chunks.iter().take(3).map(|c| c.chunk_hash));
            },
            3 => {
                if hashes.len() >= 2 {
                    let m = 1 + idx(q.other, hashes.len() - 1);
                    hashes[m] = absent(&mut r);
                }
            },
            4 => {
                let p = hashes[0][0];
                hashes[0] = MerkleHash::from([p, r.next(), r.next(), r.next() | 1]);
                collides = true;
            },
            _ => {},
        }
        // natural collisions: the first hash shares its prefix with a different stored chunk
        if let Some(v) = self.prefix_index.get(&hashes[0][0]) {
            let k0: K = *hashes[0];
            if v.iter().any(|k| *k != k0) {
                collides = true;
            }
        }
        (hashes, collides)
    }

    /// soundness oracle for one answer; `keyed` = the HMAC key the answering shard uses, if known
    pub fn check_answer(&self, surface: &str, query: &[MerkleHash], ans: &Option<(usize, FileDataSequenceEntry)>) -> Result<usize, String> {
        let Some((n, fse)) = ans else { return Ok(0) };
        let n = *n;
        if n == 0 || n > query.len() {
            return Err(format!("[sig:c05-count] {surface}: reported match count {n} for a query of {} hashes", query.len()));
        }
        let xk: K = *fse.cas_hash;
        let Some(xi) = self.by_key.get(&xk) else {
            return Err(format!("[sig:c05-unknown-xorb] {surface}: answer names xorb {:016x}.. which holds none of the data", xk[0]));
        };
        let x = &self.xorbs[*xi].1;
        let (s, e) = (fse.chunk_index_start as usize, fse.chunk_index_end as usize);
        if e != s + n || e > x.chunks.len() {
            return Err(format!("[sig:c05-range] {surface}: answer range [{s},{e}) with count {n} does not fit xorb of {} chunks", x.chunks.len()));
        }
        for i in 0..n {
            if x.chunks[s + i].chunk_hash != query[i] {
                return Err(format!(
                    "[sig:c05-untruthful] {surface}: answer says query[{i}] is chunk {} of xorb {:016x}.., but that chunk has a different hash (same 64-bit prefix: {})",
                    s + i,
                    xk[0],
                    x.chunks[s + i].chunk_hash[0] == query[i][0]
                ));
            }
        }
        let bytes: u64 = x.chunks[s..e].iter().map(|c| c.unpacked_segment_bytes as u64).sum();
        if fse.unpacked_segment_bytes as u64 != bytes {
            return Err(format!("[sig:c05-bytes] {surface}: reported {} bytes, the chunks sum to {bytes}", fse.unpacked_segment_bytes));
        }
        Ok(n)
    }
}

fn pure_oracle(c: &PureCase, info: &mut Case) -> Result<(), String> {
    let model = materialize(&c.spec);
    let uni = Universe::new(&model);
    let mem = model.to_in_memory();
    let mut buf = Vec::new();
    let sinfo = MDBShardInfo::serialize_from(&mut buf, &mem).map_err(|e| format!("[sig:c05-serialize] {e}"))?;
    let mut positives2 = 0;
    let mut collide_q = 0;
    let mut hits = 0;
    let mut expected = 0;
    for q in &c.queries {
        let (hashes, collides) = uni.build_query(q);
        let a1 = mem.chunk_hash_dedup_query(&hashes);
        let n1 = uni.check_answer("in-memory shard", &hashes, &a1)?;
        let a2 = sinfo.chunk_hash_dedup_query(&mut Cursor::new(&buf), &hashes).map_err(|e| format!("[sig:c05-query-err] serialized shard query failed: {e}"))?;
        let n2 = uni.check_answer("serialized shard", &hashes, &a2)?;
        if n1 >= 2 || n2 >= 2 {
            positives2 += 1;
        }
        if collides {
            collide_q += 1;
        }
        if q.twist % 7 <= 3 && !uni.xorbs.is_empty() {
            expected += 1;
            if n2 >= 1 {
                hits += 1;
            }
        }
    }
    info.nontrivial_if(positives2 > 0 || collide_q > 0);
    if positives2 > 0 {
        info.label("has-positive-n>=2");
    }
    if collide_q > 0 {
        info.label("has-colliding-prefix-query");
    }
    if model.n_chunks() > 256 {
        info.label("chunk-table>256");
    }
    info.note = Some(json!({"xorbs": uni.xorbs.len(), "chunks": model.n_chunks(), "queries": c.queries.len(), "expected_present": expected, "hits": hits}));
    Ok(())
}

// ---------------------------------------------------------------------------------------------

fn subset(uni: &Universe, pick: u64) -> Vec<usize> {
    let mut r = Sm64(pick);
    let n = uni.xorbs.len();
    if n == 0 {
        return vec![];
    }
    let want = 1 + (r.next() % (n as u64).min(12)) as usize;
    let mut v: Vec<usize> = (0..want).map(|_| (r.next() % n as u64) as usize).collect();
    v.sort();
    v.dedup();
    v
}

fn write_plain_shard(uni: &Universe, which: &[usize], dir: &Path) -> Result<std::path::PathBuf, String> {
    let mut s = MDBInMemoryShard::default();
    for i in which {
        s.add_cas_block(uni.xorbs[*i].1.clone()).map_err(|e| format!("{e}"))?;
    }
    s.write_to_directory(dir).map_err(|e| format!("[sig:c05-write-shard] {e}"))
}

pub fn key_of(j: u8) -> H {
    let mut k = [0u8; 32];
    Sm64(0xbeef + j as u64).fill(&mut k);
    k
}

fn hist_oracle(c: &HistCase, info: &mut Case) -> Result<(), String> {
    let model = materialize(&c.spec);
    let uni = Universe::new(&model);
    let rt = tokio::runtime::Builder::new_current_thread().enable_all().build().unwrap();
    let tmp = tempfile::tempdir().map_err(|e| e.to_string())?;
    let dir = tmp.path().join("shards");
    let scratch = tmp.path().join("scratch");
    std::fs::create_dir_all(&scratch).map_err(|e| e.to_string())?;
    let mut positives2 = 0;
    let mut collide_q = 0;
    let mut expected = 0;
    let mut hits = 0;
    let mut have_keyed = false;
    let mut n_keys = std::collections::BTreeSet::new();
    let mut known: std::collections::BTreeSet<usize> = Default::default();
    let mut labels: Vec<&'static str> = Vec::new();
    let res: Result<(), String> = rt.block_on(async {
        let mut mgr: Arc<ShardFileManager> = ShardFileManager::new_in_session_directory(&dir).await.map_err(|e| format!("[sig:c05-mgr] {e}"))?;
        for op in &c.ops {
            match op {
                Op::AddXorb(i) => {
                    if uni.xorbs.is_empty() {
                        continue;
                    }
                    let k = idx(*i, uni.xorbs.len());
                    mgr.add_cas_block(uni.xorbs[k].1.clone()).await.map_err(|e| format!("[sig:c05-add] {e}"))?;
                    known.insert(k);
                },
                Op::Flush => {
                    mgr.flush().await.map_err(|e| format!("[sig:c05-flush] {e}"))?;
                },
                Op::PlantShard { pick } => {
                    let which = subset(&uni, *pick);
                    if which.is_empty() {
                        continue;
                    }
                    write_plain_shard(&uni, &which, &dir)?;
                    mgr.refresh_shard_dir().await.map_err(|e| format!("[sig:c05-refresh] {e}"))?;
                    known.extend(which);
                    labels.push("op-plant");
                },
                Op::PlantKeyed { pick, key, file_info, cas_lookup, chunk_lookup } => {
                    let which = subset(&uni, *pick);
                    if which.is_empty() {
                        continue;
                    }
                    let p = write_plain_shard(&uni, &which, &scratch)?;
                    let sf = MDBShardFile::load_from_file(&p).map_err(|e| format!("[sig:c05-load] {e}"))?;
                    let kk = key_of(*key);
                    sf.export_as_keyed_shard(&dir, mh(&kk), Duration::from_secs(3600), *file_info, *cas_lookup, *chunk_lookup)
                        .map_err(|e| format!("[sig:c05-export] {e}"))?;
                    mgr.refresh_shard_dir().await.map_err(|e| format!("[sig:c05-refresh] {e}"))?;
                    have_keyed = true;
                    n_keys.insert(*key);
                    known.extend(which);
                    labels.push("op-plant-keyed");
                    if !*chunk_lookup {
                        labels.push("keyed-without-chunk-table");
                    }
                },
                Op::Reopen => {
                    mgr.flush().await.map_err(|e| format!("[sig:c05-flush] {e}"))?;
                    mgr = ShardFileManager::new_in_session_directory(&dir).await.map_err(|e| format!("[sig:c05-mgr] {e}"))?;
                    labels.push("op-reopen");
                },
                Op::Consolidate { threshold_kb } => {
                    if have_keyed {
                        continue;
                    }
                    mgr.flush().await.map_err(|e| format!("[sig:c05-flush] {e}"))?;
                    let th = 400 + (*threshold_kb as u64 % 512) * 1024;
                    consolidate_shards_in_directory(&dir, th).map_err(|e| format!("[sig:c05-consolidate] {e}"))?;
                    mgr = ShardFileManager::new_in_session_directory(&dir).await.map_err(|e| format!("[sig:c05-mgr] {e}"))?;
                    labels.push("op-consolidate");
                },
                Op::Query(q) => {
                    let (hashes, collides) = uni.build_query(q);
                    let a = mgr.chunk_hash_dedup_query(&hashes).await.map_err(|e| format!("[sig:c05-query-err] manager query failed: {e}"))?;
                    let n = uni.check_answer("shard manager", &hashes, &a)?;
                    if n >= 2 {
                        positives2 += 1;
                    }
                    if collides {
                        collide_q += 1;
                    }
                    if q.twist % 7 <= 3 && !uni.xorbs.is_empty() && known.contains(&idx(q.xorb, uni.xorbs.len())) {
                        expected += 1;
                        if n >= 1 {
                            hits += 1;
                        }
                    }
                },
            }
        }
        Ok(())
    });
    res?;
    info.nontrivial_if(positives2 > 0 || collide_q > 0);
    labels.sort();
    labels.dedup();
    for l in labels {
        info.label(l);
    }
    if positives2 > 0 {
        info.label("has-positive-n>=2");
    }
    if collide_q > 0 {
        info.label("has-colliding-prefix-query");
    }
    if n_keys.len() >= 2 {
        info.label("two-or-more-hmac-keys");
    }
    if expected > 0 {
        info.label(if hits == expected { "all-expected-runs-found" } else { "some-expected-runs-not-found" });
    }
    info.note = Some(json!({"xorbs": uni.xorbs.len(), "ops": c.ops.len(), "expected_present": expected, "hits": hits}));
    let _ = rm::chunk_hash; // (reference module kept in scope for keyed variants)
    let _ = (key, unkey);
    Ok(())
}

// ---- streams 'deduper*': FileDeduper (the per-file deduplicator) against a truthful index ----
//
// The dedup answers that end up in a file's record come from three places: the shard index (the
// data interface), the remainder of a partly consumed index hit, and the lookup into the xorb that
// is being built (the in-xorb self-reference, which is not re-checked by anybody). The streams drive
// `FileDeduper` with a data interface whose answers are truthful by construction and check that every
// segment of the resulting record is truthful too. They run in child processes because the xorb
// limits are process-wide constants: MAX_XORB_CHUNKS = 3 / 8192 (shipped) / 200 000.

#[derive(Clone, Debug, Serialize, Deserialize)]
pub enum El {
    /// n chunks that occur nowhere else
    Fresh(u32),
    /// a run of a known xorb
    Known { xorb: u8, start: u16, len: u16 },
    /// a repeat of chunks [pos, pos+len) of this file as listed so far
    Back { pos: u32, len: u16 },
}

#[derive(Clone, Debug, Serialize, Deserialize)]
pub struct DedupCase {
    /// MAX_XORB_CHUNKS the case was generated for (must equal the process constant)
    pub max_xorb_chunks: u32,
    /// chunk ids of the xorbs the index knows
    pub known: Vec<Vec<u8>>,
    /// how many of them (from the end) only become visible through a completed global dedup query
    pub late: u8,
    pub file: Vec<El>,
    /// sizes of the process_chunks calls (the rest goes into one last call)
    pub calls: Vec<u32>,
}

fn dd_chunk(id: u32) -> deduplication::Chunk {
    let mut data = id.to_le_bytes().to_vec();
    data.extend(std::iter::repeat(0xA5u8).take((id % 5) as usize));
    deduplication::Chunk { hash: merklehash::compute_data_hash(&data), data: data.into() }
}

fn dedup_case(max_xorb_chunks: u32) -> BoxedStrategy<DedupCase> {
    let big = match max_xorb_chunks {
        0..=100 => 60u32,
        101..=10_000 => 20_000,
        _ => 140_000,
    };
    let el = prop_oneof![
        3 => prop_oneof![3 => 1u32..40, 2 => crate::gen::edge_u32(big).prop_map(|n| n.max(1))].prop_map(El::Fresh),
        2 => (0u8..4, 0u16..40, 1u16..40).prop_map(|(xorb, start, len)| El::Known { xorb, start, len }),
        3 => (crate::gen::edge_u32(big + 200), prop_oneof![3 => 1u16..12, 1 => 1u16..400]).prop_map(|(pos, len)| El::Back { pos, len }),
    ];
    (
        proptest::collection::vec(proptest::collection::vec(0u8..60, 1..40), 0..4),
        0u8..3,
        proptest::collection::vec(el, 1..10),
        proptest::collection::vec(prop_oneof![2 => 0u32..50, 2 => crate::gen::edge_u32(big)], 0..6),
    )
        .prop_map(move |(known, late, file, calls)| DedupCase { max_xorb_chunks, known, late, file, calls })
        .boxed()
}

struct DdState {
    known: Vec<(MerkleHash, Vec<(MerkleHash, u32)>)>,
    visible: usize,
    query_registered: bool,
    queries: u32,
    index_hits: u32,
    registered: BTreeMap<MerkleHash, Vec<(MerkleHash, u32)>>,
}

#[derive(Clone)]
struct DdIface(Arc<std::sync::Mutex<DdState>>);

#[async_trait::async_trait]
impl deduplication::DeduplicationDataInterface for DdIface {
    type ErrorType = std::io::Error;

    async fn chunk_hash_dedup_query(&self, query_hashes: &[MerkleHash]) -> Result<Option<(usize, FileDataSequenceEntry)>, Self::ErrorType> {
        let mut st = self.0.lock().unwrap();
        st.queries += 1;
        let vis = st.visible;
        for (xh, chunks) in st.known[..vis].iter() {
            if let Some(pos) = chunks.iter().position(|(h, _)| *h == query_hashes[0]) {
                let mut n = 0;
                let mut bytes = 0u32;
                while pos + n < chunks.len() && n < query_hashes.len() && chunks[pos + n].0 == query_hashes[n] {
                    bytes += chunks[pos + n].1;
                    n += 1;
                }
                let fse = FileDataSequenceEntry::new(*xh, bytes, pos as u32, (pos + n) as u32);
                st.index_hits += 1;
                return Ok(Some((n, fse)));
            }
        }
        Ok(None)
    }

    async fn register_global_dedup_query(&mut self, _chunk_hash: MerkleHash) -> Result<(), Self::ErrorType> {
        self.0.lock().unwrap().query_registered = true;
        Ok(())
    }

    async fn complete_global_dedup_queries(&mut self) -> Result<bool, Self::ErrorType> {
        let mut st = self.0.lock().unwrap();
        if st.query_registered && st.visible < st.known.len() {
            st.visible = st.known.len();
            return Ok(true);
        }
        Ok(false)
    }

    async fn register_new_xorb(&mut self, xorb: deduplication::RawXorbData) -> Result<(), Self::ErrorType> {
        let chunks = xorb.cas_info.chunks.iter().map(|c| (c.chunk_hash, c.unpacked_segment_bytes)).collect();
        self.0.lock().unwrap().registered.insert(xorb.hash(), chunks);
        Ok(())
    }
}

fn dedup_oracle(c: &DedupCase, info: &mut Case) -> Result<(), String> {
    crate::engine::journal(&serde_json::to_string(c).unwrap_or_default());
    let active = *deduplication::constants::MAX_XORB_CHUNKS;
    if active != c.max_xorb_chunks as usize {
        return Err(format!("[sig:infra] case generated for MAX_XORB_CHUNKS={} but the process runs with {active}", c.max_xorb_chunks));
    }
    // the file's chunk ids
    let mut ids: Vec<u32> = Vec::new();
    let mut next_fresh = 1_000_000u32;
    for e in &c.file {
        match e {
            El::Fresh(n) => {
                ids.extend(next_fresh..next_fresh + *n);
                next_fresh += *n;
            },
            El::Known { xorb, start, len } => {
                if let Some(x) = c.known.get((*xorb as usize).min(c.known.len().saturating_sub(1))) {
                    let a = (*start as usize).min(x.len() - 1);
                    let b = (a + *len as usize).min(x.len());
                    ids.extend(x[a..b].iter().map(|i| *i as u32));
                }
            },
            El::Back { pos, len } => {
                if !ids.is_empty() {
                    let a = (*pos as usize).min(ids.len() - 1);
                    let b = (a + *len as usize).min(ids.len());
                    let rep: Vec<u32> = ids[a..b].to_vec();
                    if a >= 65_536 {
                        info.label("repeat-of-file-chunks-at-position>=65536");
                    }
                    ids.extend(rep);
                }
            },
        }
    }
    let mut cache: BTreeMap<u32, deduplication::Chunk> = BTreeMap::new();
    let chunks: Vec<deduplication::Chunk> = ids.iter().map(|i| cache.entry(*i).or_insert_with(|| dd_chunk(*i)).clone()).collect();
    let known: Vec<(MerkleHash, Vec<(MerkleHash, u32)>)> = c
        .known
        .iter()
        .enumerate()
        .map(|(i, x)| {
            (merklehash::compute_data_hash(format!("known-xorb-{i}").as_bytes()), x.iter().map(|id| {
                let ch = dd_chunk(*id as u32);
                (ch.hash, ch.data.len() as u32)
            }).collect())
        })
        .collect();
    let visible = known.len() - (c.late as usize).min(known.len());
    let st = Arc::new(std::sync::Mutex::new(DdState { known: known.clone(), visible, query_registered: false, queries: 0, index_hits: 0, registered: BTreeMap::new() }));
    let mut deduper = deduplication::FileDeduper::new(DdIface(st.clone()));
    let mut at = 0usize;
    let mut n_calls = 0;
    for sz in c.calls.iter().map(|s| *s as usize).chain(std::iter::once(usize::MAX)) {
        let end = at.saturating_add(sz).min(chunks.len());
        futures::executor::block_on(deduper.process_chunks(&chunks[at..end])).map_err(|e| format!("[sig:c05-deduper-error] process_chunks failed although the data interface never fails: {e}"))?;
        n_calls += 1;
        at = end;
        if at >= chunks.len() && sz == usize::MAX {
            break;
        }
    }
    let (_file_hash, agg, _metrics, _new_xorbs) = deduper.finalize([0u8; 32], None);
    let pending: Vec<(MerkleHash, u32)> = agg.chunks.iter().map(|ch| (ch.hash, ch.data.len() as u32)).collect();
    let st = st.lock().unwrap();
    if agg.pending_file_info.len() != 1 {
        return Err(format!("[sig:c05-deduper-record] finalize returned {} file records for one file", agg.pending_file_info.len()));
    }
    let fi = &agg.pending_file_info[0].0;
    let mut pos = 0usize;
    let (mut seg_known, mut seg_registered, mut seg_pending) = (0, 0, 0);
    for (si, seg) in fi.segments.iter().enumerate() {
        let (src, what): (&Vec<(MerkleHash, u32)>, &str) = if seg.cas_hash == MerkleHash::default() {
            seg_pending += 1;
            (&pending, "the xorb still being built")
        } else if let Some(x) = st.registered.get(&seg.cas_hash) {
            seg_registered += 1;
            (x, "a xorb cut by this file")
        } else if let Some((_, x)) = known.iter().find(|(h, _)| *h == seg.cas_hash) {
            seg_known += 1;
            (x, "a xorb of the index")
        } else {
            return Err(format!("[sig:c05-deduper-unknown-xorb] segment {si} refers to xorb {} which neither the index nor this file produced", seg.cas_hash.hex()));
        };
        let (a, b) = (seg.chunk_index_start as usize, seg.chunk_index_end as usize);
        if a >= b || b > src.len() {
            return Err(format!("[sig:c05-deduper-range] segment {si} claims chunks [{a},{b}) of {what}, which has {} chunks", src.len()));
        }
        let mut bytes = 0u64;
        for k in a..b {
            if pos >= chunks.len() {
                return Err(format!("[sig:c05-deduper-cover] the record covers more chunks than the file's {}", chunks.len()));
            }
            if src[k].0 != chunks[pos].hash {
                return Err(format!("[sig:c05-deduper-untruthful] segment {si} says file chunk {pos} is stored at position {k} of {what} ({} chunks), but that position holds another chunk", src.len()));
            }
            bytes += src[k].1 as u64;
            pos += 1;
        }
        if bytes != seg.unpacked_segment_bytes as u64 {
            return Err(format!("[sig:c05-deduper-bytes] segment {si} reports {} bytes, chunks [{a},{b}) of {what} hold {bytes}", seg.unpacked_segment_bytes));
        }
    }
    if pos != chunks.len() {
        return Err(format!("[sig:c05-deduper-cover] the record covers {pos} of the file's {} chunks", chunks.len()));
    }
    let widest = st.registered.values().map(|v| v.len()).chain(std::iter::once(pending.len())).max().unwrap_or(0);
    if widest > 65_535 {
        info.label("xorb-of-more-than-65535-chunks");
    }
    if st.registered.len() >= 1 {
        info.label("file-cut-one-or-more-xorbs");
    }
    if seg_known > 0 {
        info.label("segment-from-index-hit");
    }
    if st.visible > visible {
        info.label("late-shard-arrived-after-global-query");
    }
    let self_ref = seg_pending + seg_registered >= 2;
    if self_ref {
        info.label("segments>=2-into-own-xorbs");
    }
    info.nontrivial_if(fi.segments.len() >= 2 && (seg_known > 0 || self_ref));
    info.note = Some(json!({"chunks": chunks.len(), "calls": n_calls, "segments": fi.segments.len(), "index_queries": st.queries, "index_hits": st.index_hits, "xorbs_cut": st.registered.len(), "widest_xorb": widest}));
    Ok(())
}

const DD_CONFS: [(&str, u32); 3] = [("deduper-3", 3), ("deduper", 8192), ("deduper-wide", 200_000)];

pub fn run(ctx: &Ctx) {
    ctx.explore("pure", ctx.tier.pick(24_000, 1_000_000), 16, pure_case, pure_oracle);
    ctx.explore("history", ctx.tier.pick(12_000, 500_000), 16, hist_case, hist_oracle);
    let n = [ctx.tier.pick(6_000, 200_000), ctx.tier.pick(3_000, 60_000), ctx.tier.pick(640, 16_000)];
    for (i, (stream, mxc)) in DD_CONFS.iter().enumerate() {
        if ctx.is_worker || ctx.replay.is_some() {
            ctx.explore(stream, n[i], 1, || dedup_case(*mxc), dedup_oracle);
        } else {
            let mut env = BTreeMap::new();
            env.insert("HF_XET_MAX_XORB_CHUNKS".to_string(), mxc.to_string());
            ctx.explore_workers(stream, n[i], 16, &env, Duration::from_secs(ctx.tier.pick(900, 7200)));
        }
    }
}
