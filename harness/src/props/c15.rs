//! C15 No xorb or chunk exceeds the configured and wire-format limits.

use std::io::Cursor;

use cas_object::CasObject;
use merklehash::MerkleHash;
use proptest::prelude::*;
use serde::{Deserialize, Serialize};
use serde_json::json;

use super::sess::{conf_labels, file_records, run_confs};
use crate::engine::{journal, Case, Ctx};
use crate::session::{file_strategy, history_strategy, run_history, Call, Conf, Elem, FileSpec, History, HistoryObs, RunOpts, SessionSpec};

pub const RULE: &str = "histories as in C01 plus limit-seeking files built from the active configuration: runs of exactly MAX_XORB_CHUNKS-1 / MAX_XORB_CHUNKS / +1 chunks, constant-byte chunks of exactly the maximum chunk size filling MAX_XORB_BYTES exactly / one chunk past it, many small files (1-3 chunks) merged into shared xorbs, sequential or concurrent cleaning. Oracle on every put the store receives (tracing client) and on the store afterwards: data non-empty, chunk count <= MAX_XORB_CHUNKS, bytes <= MAX_XORB_BYTES, boundaries strictly increasing and ending at the data length, every chunk <= the maximum chunk size (< 2^24), the stored object is accepted by validate_cas_object, and no file record (returned by the session or in an uploaded shard) with >= 1 segment carries the zero xorb hash. non-trivial = a session in which some put carried exactly MAX_XORB_CHUNKS chunks or more than MAX_XORB_BYTES - max_chunk bytes (a limit was binding), or >= 3 files ended in one shared xorb; distinct by fingerprint of the generated case";

pub const ASSUMPTIONS: &[&str] = &[
    "MAX_XORB_BYTES >= maximum chunk size and MAX_XORB_CHUNKS >= 1 (a xorb must be able to hold one chunk)",
    "the branch taken by the session aggregator (merge / cut / swap) is inferred from the puts, not observed directly",
];

#[derive(Clone, Debug, Serialize, Deserialize)]
pub struct C15Case {
    pub history: History,
}

fn limit_file(conf: &Conf) -> BoxedStrategy<FileSpec> {
    let maxc = conf.max_xorb_chunks();
    let per_xorb_big = (conf.max_xorb_bytes() / conf.params().max).max(1);
    let counts: Vec<usize> = vec![maxc.saturating_sub(1).max(1), maxc, maxc + 1, 2 * maxc, 2 * maxc + 1];
    let bigs: Vec<usize> = vec![per_xorb_big.saturating_sub(1).max(1), per_xorb_big, per_xorb_big + 1, 2 * per_xorb_big + 1];
    prop_oneof![
        3 => (any::<u16>(), proptest::sample::select(counts), proptest::option::weighted(0.3, (any::<u64>(), 1u16..40))).prop_map(|(id, n, tail)| {
            let mut elems = Vec::new();
            let mut left = n.min(2100);
            let mut base = id;
            while left > 0 {
                let k = left.min(200);
                elems.push(Elem::Run(base, k as u8));
                base = base.wrapping_add(k as u16);
                left -= k;
            }
            FileSpec { elems, tail, feed: vec![] }
        }),
        3 => (0u8..4, proptest::sample::select(bigs), proptest::collection::vec(any::<u16>(), 0..3)).prop_map(|(b, n, extra)| {
            let mut elems = vec![Elem::Big(b, n.min(250) as u8)];
            elems.extend(extra.into_iter().map(Elem::C));
            FileSpec { elems, tail: None, feed: vec![(7, 40000)] }
        }),
        3 => (any::<u16>(), 1u8..4).prop_map(|(id, n)| FileSpec { elems: vec![Elem::Run(id, n)], tail: None, feed: vec![] }),
        2 => file_strategy(false),
    ]
    .boxed()
}

fn case_strategy() -> impl Strategy<Value = C15Case> {
    let conf = Conf::active();
    let limit_session = (proptest::collection::vec(limit_file(&conf), 1..10), any::<bool>(), proptest::collection::vec(0u8..4, 1..4))
        .prop_map(|(files, concurrent, yields)| SessionSpec { files, concurrent, yields, client: 0, restart_before: false, peer: false });
    let limit_history = (any::<u64>(), 600u16..3000, proptest::collection::vec(limit_session, 1..3))
        .prop_map(|(pool_seed, n_ids, sessions)| History { pool_seed, n_ids, salt_seed: 3, sessions, global_dedup: false });
    prop_oneof![3 => limit_history, 1 => history_strategy(false, 3, 6)].prop_map(|history| C15Case { history })
}

pub fn check_session_limits(obs: &HistoryObs, si: usize) -> Result<(bool, usize), String> {
    let conf = &obs.conf;
    let s = &obs.sessions[si];
    let max_chunk = conf.params().max;
    let mut binding = false;
    for e in &s.log {
        if let (Call::Put { hash, n_chunks, n_bytes, boundaries_ok, max_chunk_len, empty }, true) = (&e.call, e.start) {
            let hx = crate::refs::merkle::hex(hash);
            if *empty || *n_bytes == 0 || *n_chunks == 0 {
                return Err(format!("[sig:c15-empty-xorb] session {si}: an empty xorb {hx} was handed to the store"));
            }
            if *n_chunks > conf.max_xorb_chunks() {
                return Err(format!("[sig:c15-too-many-chunks] session {si}: xorb {hx} has {n_chunks} chunks, MAX_XORB_CHUNKS = {}", conf.max_xorb_chunks()));
            }
            if *n_bytes > conf.max_xorb_bytes() {
                return Err(format!("[sig:c15-too-many-bytes] session {si}: xorb {hx} has {n_bytes} bytes, MAX_XORB_BYTES = {}", conf.max_xorb_bytes()));
            }
            if !*boundaries_ok {
                return Err(format!("[sig:c15-boundaries] session {si}: xorb {hx}: chunk boundaries are not strictly increasing or do not end at the data length"));
            }
            if *max_chunk_len > max_chunk || *max_chunk_len >= (1 << 24) {
                return Err(format!("[sig:c15-chunk-too-long] session {si}: xorb {hx} holds a chunk of {max_chunk_len} bytes, maximum chunk size is {max_chunk}"));
            }
            if *n_chunks == conf.max_xorb_chunks() || *n_bytes + max_chunk > conf.max_xorb_bytes() {
                binding = true;
            }
        }
    }
    // stored objects are accepted by the server-side validator
    for name in s.xorbs_after.difference(&s.xorbs_before) {
        let bytes = std::fs::read(obs.xorb_dir().join(name)).map_err(|e| format!("[sig:infra] read xorb: {e}"))?;
        let hex = name.strip_prefix("default.").unwrap_or(name);
        let h = MerkleHash::from_hex(hex).map_err(|_| format!("[sig:c15-xorb-name] stored xorb has a malformed name {name}"))?;
        match CasObject::validate_cas_object(&mut Cursor::new(&bytes), &h) {
            Ok(Some(_)) => {},
            other => return Err(format!("[sig:c15-xorb-rejected] the validating store would reject xorb {hex}: {:?}", other.map(|o| o.is_some()))),
        }
    }
    // no unresolved xorb reference in any emitted file record
    let recs = file_records(s);
    let mut shared = std::collections::BTreeMap::<String, usize>::new();
    for (fh, r) in &recs {
        for (i, seg) in r.segments.iter().enumerate() {
            if seg.cas_hash == MerkleHash::default() {
                return Err(format!("[sig:c15-unresolved-xorb] session {si}: file record {fh} segment {i} carries the zero xorb hash"));
            }
        }
        if let Some(last) = r.segments.last() {
            *shared.entry(last.cas_hash.hex()).or_default() += 1;
        }
    }
    for e in &s.log {
        if let (Call::UploadShard { .. }, true, Some(bytes)) = (&e.call, e.start, &e.shard_bytes) {
            let si_ = mdb_shard::MDBShardInfo::load_from_reader(&mut Cursor::new(&bytes[..])).map_err(|e| format!("[sig:c15-shard-unreadable] uploaded shard does not parse: {e}"))?;
            for f in si_.read_all_file_info_sections(&mut Cursor::new(&bytes[..])).map_err(|e| format!("[sig:c15-shard-unreadable] {e}"))? {
                if f.segments.iter().any(|seg| seg.cas_hash == MerkleHash::default()) {
                    return Err(format!("[sig:c15-unresolved-xorb] session {si}: an uploaded shard holds file record {} with the zero xorb hash", f.metadata.file_hash.hex()));
                }
            }
        }
    }
    Ok((binding, shared.values().copied().max().unwrap_or(0)))
}

fn oracle(c: &C15Case, info: &mut Case) -> Result<(), String> {
    journal(&serde_json::to_string(c).unwrap_or_default());
    let res = std::sync::Arc::new(std::sync::Mutex::new(Vec::<(bool, usize)>::new()));
    let res2 = res.clone();
    let opts = RunOpts {
        after_session: Some(Box::new(move |obs: &HistoryObs, si: usize| {
            let s = &obs.sessions[si];
            if let Err(e) = &s.finalize {
                return Err(format!("[sig:c15-session-error] finalize failed without injected fault (session {si}): {e}"));
            }
            if let Some(f) = s.files.iter().find(|f| f.finish.is_err()) {
                return Err(format!("[sig:c15-session-error] clean failed without injected fault: {:?} {:?}", f.finish.as_ref().err(), f.add_err));
            }
            res2.lock().unwrap().push(check_session_limits(obs, si)?);
            Ok(())
        })),
        ..Default::default()
    };
    let obs = run_history(&c.history, opts)?;
    let r = res.lock().unwrap().clone();
    let binding = r.iter().any(|x| x.0);
    let shared = r.iter().map(|x| x.1).max().unwrap_or(0);
    info.nontrivial_if(binding || shared >= 3);
    if binding {
        info.label("limit-binding-put");
    }
    if shared >= 3 {
        info.label(">=3-files-end-in-one-xorb");
    }
    let puts: usize = obs.sessions.iter().map(|s| s.log.iter().filter(|e| e.start && matches!(e.call, Call::Put { .. })).count()).sum();
    if c.history.sessions.iter().any(|s| s.concurrent && s.files.len() > 1) {
        info.label("concurrent-cleaning");
    }
    conf_labels(info, &obs.conf);
    info.note = Some(json!({"sessions": obs.sessions.len(), "puts": puts, "files": obs.sessions.iter().map(|s| s.files.len()).sum::<usize>(), "max_files_sharing_last_xorb": shared}));
    Ok(())
}

pub fn run(ctx: &Ctx) {
    if ctx.is_worker || ctx.replay.is_some() {
        ctx.explore("limits", 1, 1, case_strategy, oracle);
    } else {
        run_confs(ctx, "limits", ctx.tier.pick(16, 96), ctx.tier.pick(45, 250), false, &[]);
    }
}
