//! C12 A chunk-cache hit returns exactly the bytes that were put.

use std::collections::BTreeMap;
use std::path::Path;
use std::time::Duration;

use proptest::prelude::*;
use serde::{Deserialize, Serialize};
use serde_json::json;

use super::c13::capacity_of;
use crate::cachex::{is_item_name, item_file_name, key_dir_name, key_of, list_files, open, run_batch, Op, OpOutcome, B64};
use crate::engine::{idx, journal, Case, Ctx, Sm64};
use base64::Engine;
use chunk_cache::ChunkCache;

pub const RULE: &str = "per key a virtual xorb (chunk i of key k is a pure function of (k, i)); histories of put / get / re-open / damage over <= 4 keys with overlapping, nested and adjacent chunk ranges and capacities from 'fits two items' to ample. Damage is applied directly before a re-open (file deletion also while open): burst of <= 32 flipped bits at any offset of a cache file, truncation, extension, deletion of file / key directory / prefix directory, junk files and directories at root / prefix / key level with random, too-short, base64-decodable and cache-item-shaped names and random content, rename to a junk name, swap of two items' names. Stream 'forged': additionally renames that keep an item's length and checksum fields but claim another chunk range - the format cannot tell such an entry from a genuine one, so after a forge hits are only counted, but initialize / put / get must still not panic. Concurrent stream: the same operations from 2-3 threads under the schedule controller. Histories run in child processes with a case journal. Oracle: initialize / put / get never panic; every get is a miss, an error, or a hit whose data, offsets and range equal the slice of the key's virtual xorb. Stream 'wide': one key, 1-2 items of up to 140 000 tiny chunks with chunk counts and start indices drawn with a bias to 2^k-1 / 2^k / 2^k+1 (the widths the header and the file name store counts and indices in), sub-range gets with the same bias, before and after a re-open, no damage; same hit oracle; non-trivial there = a hit on an item of more than 255 chunks. non-trivial = a hit on a strict sub-range of a stored range, or a hit after a re-open that followed >= 1 damage operation; distinct by fingerprint of the generated history";

pub const ASSUMPTIONS: &[&str] = &[
    "forged entries are outside the fault model: a rename or planted file that keeps a consistent (length, CRC) identity while changing range or key directory cannot be told from a genuine entry by any reader of this on-disk format",
    "puts for one key are mutually consistent (content-addressed xorbs)",
    "the cache crate is built with production semantics (its debug-only assertions about directory names are off)",
];

#[derive(Clone, Debug, Serialize, Deserialize)]
pub enum Damage {
    FlipBits { file: u16, offset: u16, bits: u8, seed: u64 },
    Truncate { file: u16, to: u16 },
    Extend { file: u16, extra: u8 },
    DeleteFile { file: u16 },
    DeleteKeyDir { file: u16 },
    DeletePrefixDir { file: u16 },
    /// level 0 root, 1 prefix dir, 2 key dir; name kind 0 random, 1 too short, 2 base64 of n bytes, 3 cache-item-shaped, 4 two chars
    Junk { level: u8, is_dir: bool, name_kind: u8, seed: u64, content: u8 },
    RenameToJunk { file: u16, seed: u64 },
    SwapNames { a: u16, b: u16 },
    /// rename an item to a name with the same length and checksum fields but another chunk range
    /// (forged entry: its content can no longer be judged, but it must not cause a panic)
    ForgeRange { file: u16, start_delta: i8, end_delta: i8 },
}

#[derive(Clone, Debug, Serialize, Deserialize)]
pub enum Step {
    Op(Op),
    /// damage then re-open
    DamageReopen(Vec<Damage>),
    Reopen,
    /// deletion of a cache file while the cache is open
    DeleteWhileOpen { file: u16 },
    /// a batch of concurrent operations under a generated schedule
    Batch { threads: Vec<Vec<Op>>, schedule: Vec<u8> },
}

#[derive(Clone, Debug, Serialize, Deserialize)]
pub struct C12Case {
    pub cap_kind: u8,
    pub cap_mag: u16,
    pub steps: Vec<Step>,
}

fn op_strategy() -> impl Strategy<Value = Op> {
    prop_oneof![
        4 => (0u8..3, prop_oneof![Just(0u8), Just(2u8), Just(4u8), Just(7u8)], prop_oneof![Just(1u8), Just(3u8), Just(6u8), Just(12u8)]).prop_map(|(key, a, len)| Op::Put { key, a, len }),
        1 => (0u8..4, 0u8..14, 0u8..14).prop_map(|(key, a, len)| Op::Put { key, a, len }),
        4 => (0u8..3, 0u8..10, 0u8..6).prop_map(|(key, a, len)| Op::Get { key, a, len }),
        1 => (0u8..4, 0u8..14, 0u8..14).prop_map(|(key, a, len)| Op::Get { key, a, len }),
    ]
}

fn damage_strategy() -> impl Strategy<Value = Damage> {
    prop_oneof![
        4 => (any::<u16>(), any::<u16>(), 1u8..=32, any::<u64>()).prop_map(|(file, offset, bits, seed)| Damage::FlipBits { file, offset, bits, seed }),
        2 => (any::<u16>(), any::<u16>()).prop_map(|(file, to)| Damage::Truncate { file, to }),
        2 => (any::<u16>(), 1u8..60).prop_map(|(file, extra)| Damage::Extend { file, extra }),
        2 => any::<u16>().prop_map(|file| Damage::DeleteFile { file }),
        1 => any::<u16>().prop_map(|file| Damage::DeleteKeyDir { file }),
        1 => any::<u16>().prop_map(|file| Damage::DeletePrefixDir { file }),
        6 => (0u8..3, any::<bool>(), 0u8..5, any::<u64>(), any::<u8>()).prop_map(|(level, is_dir, name_kind, seed, content)| Damage::Junk { level, is_dir, name_kind, seed, content }),
        2 => (any::<u16>(), any::<u64>()).prop_map(|(file, seed)| Damage::RenameToJunk { file, seed }),
        2 => (any::<u16>(), any::<u16>()).prop_map(|(a, b)| Damage::SwapNames { a, b }),
    ]
}

fn forge_strategy() -> impl Strategy<Value = Damage> {
    (any::<u16>(), -3i8..=3, -3i8..=6).prop_map(|(file, start_delta, end_delta)| Damage::ForgeRange { file, start_delta, end_delta })
}

fn step_strategy(with_batches: bool, forge: bool) -> BoxedStrategy<Step> {
    let dmg = if forge { prop_oneof![2 => forge_strategy(), 1 => damage_strategy()].boxed() } else { damage_strategy().boxed() };
    let base = prop_oneof![
        14 => op_strategy().prop_map(Step::Op),
        3 => proptest::collection::vec(dmg, 1..4).prop_map(Step::DamageReopen),
        1 => Just(Step::Reopen),
        1 => any::<u16>().prop_map(|file| Step::DeleteWhileOpen { file }),
    ];
    if with_batches {
        prop_oneof![
            3 => base,
            1 => (proptest::collection::vec(proptest::collection::vec(op_strategy(), 1..4), 2..=3), proptest::collection::vec(any::<u8>(), 0..30))
                .prop_map(|(threads, schedule)| Step::Batch { threads, schedule }),
        ]
        .boxed()
    } else {
        base.boxed()
    }
}

fn case_strategy(with_batches: bool) -> impl Strategy<Value = C12Case> {
    (0u8..3, any::<u16>(), proptest::collection::vec(step_strategy(with_batches, false), 3..30)).prop_map(|(cap_kind, cap_mag, steps)| C12Case { cap_kind, cap_mag, steps })
}

fn forged_case_strategy() -> impl Strategy<Value = C12Case> {
    (0u8..3, any::<u16>(), proptest::collection::vec(step_strategy(false, true), 3..30)).prop_map(|(cap_kind, cap_mag, steps)| C12Case { cap_kind, cap_mag, steps })
}

fn junk_name(kind: u8, seed: u64) -> String {
    let mut r = Sm64(seed);
    match kind % 5 {
        0 => format!("junk-{:x}", r.next()),
        1 => {
            let n = 1 + (r.next() % 6) as usize;
            B64.encode(r.bytes(n))
        },
        2 => {
            let n = 20 + (r.next() % 40) as usize;
            B64.encode(r.bytes(n))
        },
        3 => {
            // cache-item-shaped: 20 bytes = (start, end, len, crc) with start < end
            let s = (r.next() % 10) as u32;
            item_file_name(s, s + 1 + (r.next() % 5) as u32, 16 + r.next() % 300, r.next() as u32)
        },
        _ => {
            let a = b"ABCDEFGHIJKLMNOPQRSTUVWXYZabcdefghijklmnopqrstuvwxyz0123456789-_";
            format!("{}{}", a[(r.next() % 64) as usize] as char, a[(r.next() % 64) as usize] as char)
        },
    }
}

fn cache_files(root: &Path) -> Vec<(std::path::PathBuf, String, u64)> {
    list_files(root).into_iter().filter(|(_, n, _)| is_item_name(n)).collect()
}

fn apply_damage(root: &Path, d: &Damage) -> &'static str {
    let files = cache_files(root);
    let pick = |sel: u16| -> Option<std::path::PathBuf> {
        if files.is_empty() {
            None
        } else {
            let (dir, name, _) = &files[idx(sel, files.len())];
            Some(root.join(dir).join(name))
        }
    };
    match d {
        Damage::FlipBits { file, offset, bits, seed } => {
            if let Some(p) = pick(*file) {
                if let Ok(mut b) = std::fs::read(&p) {
                    if !b.is_empty() {
                        // one burst: `bits` flipped bits within a 32-bit window starting at a byte offset
                        let at = idx(*offset, b.len());
                        let mut r = Sm64(*seed);
                        for _ in 0..*bits {
                            let bit = (r.next() % 32) as usize;
                            let byte = at + bit / 8;
                            if byte < b.len() {
                                b[byte] ^= 1 << (bit % 8);
                            }
                        }
                        let _ = std::fs::write(&p, b);
                    }
                }
            }
            "flip"
        },
        Damage::Truncate { file, to } => {
            if let Some(p) = pick(*file) {
                if let Ok(b) = std::fs::read(&p) {
                    let n = idx(*to, b.len().max(1));
                    let _ = std::fs::write(&p, &b[..n.min(b.len())]);
                }
            }
            "truncate"
        },
        Damage::Extend { file, extra } => {
            if let Some(p) = pick(*file) {
                if let Ok(mut b) = std::fs::read(&p) {
                    b.extend(Sm64(*extra as u64).bytes(*extra as usize));
                    let _ = std::fs::write(&p, b);
                }
            }
            "extend"
        },
        Damage::DeleteFile { file } => {
            if let Some(p) = pick(*file) {
                let _ = std::fs::remove_file(p);
            }
            "delete-file"
        },
        Damage::DeleteKeyDir { file } => {
            if let Some(p) = pick(*file) {
                let _ = std::fs::remove_dir_all(p.parent().unwrap());
            }
            "delete-key-dir"
        },
        Damage::DeletePrefixDir { file } => {
            if let Some(p) = pick(*file) {
                let _ = std::fs::remove_dir_all(p.parent().unwrap().parent().unwrap());
            }
            "delete-prefix-dir"
        },
        Damage::Junk { level, is_dir, name_kind, seed, content } => {
            let _ = std::fs::create_dir_all(root);
            let name = junk_name(*name_kind, *seed);
            // choose a directory at the requested level (existing prefix / key dir if any)
            let dir = match level % 3 {
                0 => root.to_path_buf(),
                1 => {
                    let kd = key_dir_name(&key_of((*seed % 4) as u8));
                    let d = root.join(&kd[..2]);
                    let _ = std::fs::create_dir_all(&d);
                    d
                },
                _ => {
                    let kd = key_dir_name(&key_of((*seed % 4) as u8));
                    let d = root.join(&kd[..2]).join(&kd);
                    let _ = std::fs::create_dir_all(&d);
                    d
                },
            };
            let p = dir.join(&name);
            if *is_dir {
                let _ = std::fs::create_dir_all(&p);
                if *content % 2 == 1 {
                    let _ = std::fs::write(p.join(junk_name(content % 5, *seed ^ 1)), Sm64(*seed).bytes(*content as usize));
                }
            } else if !p.exists() {
                let _ = std::fs::write(&p, Sm64(*seed ^ 7).bytes(*content as usize));
            }
            "junk"
        },
        Damage::RenameToJunk { file, seed } => {
            if let Some(p) = pick(*file) {
                let _ = std::fs::rename(&p, p.parent().unwrap().join(format!("renamed-{:x}", seed)));
            }
            "rename-junk"
        },
        Damage::ForgeRange { file, start_delta, end_delta } => {
            if let Some(p) = pick(*file) {
                let name = p.file_name().unwrap().to_string_lossy().to_string();
                if let Ok(raw) = B64.decode(name.as_bytes()) {
                    if raw.len() == 20 {
                        let s0 = u32::from_le_bytes(raw[0..4].try_into().unwrap()) as i64;
                        let e0 = u32::from_le_bytes(raw[4..8].try_into().unwrap()) as i64;
                        let len = u64::from_le_bytes(raw[8..16].try_into().unwrap());
                        let crc = u32::from_le_bytes(raw[16..20].try_into().unwrap());
                        let s1 = (s0 + *start_delta as i64).max(0);
                        let e1 = (e0 + *end_delta as i64).max(s1 + 1);
                        if (s1, e1) != (s0, e0) {
                            let _ = std::fs::rename(&p, p.parent().unwrap().join(item_file_name(s1 as u32, e1 as u32, len, crc)));
                        }
                    }
                }
            }
            "forge-range"
        },
        Damage::SwapNames { a, b } => {
            if let (Some(pa), Some(pb)) = (pick(*a), pick(*b)) {
                if pa != pb {
                    let tmp = pa.with_extension("swap");
                    let _ = std::fs::rename(&pa, &tmp);
                    let _ = std::fs::rename(&pb, &pa);
                    let _ = std::fs::rename(&tmp, &pb);
                }
            }
            "swap-names"
        },
    }
}

fn oracle(c: &C12Case, info: &mut Case) -> Result<(), String> {
    journal(&serde_json::to_string(c).unwrap_or_default());
    let tmp = tempfile::Builder::new().prefix("xvc-").tempdir_in(crate::engine::work_dir()).map_err(|e| format!("[sig:infra] tempdir: {e}"))?;
    let root = tmp.path().join("cache");
    let capacity = capacity_of(c.cap_kind, c.cap_mag);
    let mut cache = open(&root, capacity).map_err(|e| format!("[sig:c12-initialize-error] initialize of an empty directory failed: {e}"))?;
    // stored ranges per key since the last re-open (to classify sub-range hits)
    let mut stored: BTreeMap<u8, Vec<(u32, u32)>> = BTreeMap::new();
    let mut damaged_since_reopen = false;
    let mut reopened_after_damage = false;
    let mut nontrivial = false;
    let mut hits = 0;
    // once an entry was forged, hits are counted but their content is not judged (see Damage::ForgeRange)
    let mut forged = false;
    for (si, st) in c.steps.iter().enumerate() {
        match st {
            Step::Op(op) => {
                let out = crate::cachex::apply_ex(&cache, op, None, !forged).map_err(|e| format!("{e} (step {si})"))?;
                let (k, a, b) = op.range();
                match out {
                    OpOutcome::PutOk => stored.entry(k).or_default().push((a, b)),
                    OpOutcome::Hit => {
                        hits += 1;
                        if reopened_after_damage {
                            nontrivial = true;
                            info.label("hit-after-damage-and-reopen");
                        }
                        if stored.get(&k).map(|v| v.iter().any(|(s, e)| *s <= a && b <= *e && (*s, *e) != (a, b))).unwrap_or(false) {
                            nontrivial = true;
                            info.label("hit-on-strict-subrange");
                        }
                    },
                    _ => {},
                }
            },
            Step::DamageReopen(ds) => {
                drop(cache);
                for d in ds {
                    let l = apply_damage(&root, d);
                    info.label(format!("damage:{l}"));
                    if matches!(d, Damage::ForgeRange { .. }) {
                        forged = true;
                    }
                }
                damaged_since_reopen = true;
                cache = open(&root, capacity).map_err(|e| format!("[sig:c12-initialize-error] re-open after damage {:?} failed: {e}", ds))?;
                reopened_after_damage = damaged_since_reopen;
                // what is stored is no longer known exactly; keep the ranges (a hit is checked against the virtual xorb anyway)
            },
            Step::Reopen => {
                drop(cache);
                cache = open(&root, capacity).map_err(|e| format!("[sig:c12-initialize-error] re-open failed: {e}"))?;
            },
            Step::DeleteWhileOpen { file } => {
                apply_damage(&root, &Damage::DeleteFile { file: *file });
                info.label("damage:delete-while-open");
            },
            Step::Batch { threads, schedule } => {
                let r = run_batch(&cache, None, threads, schedule, 99 + si as u64);
                if let Some(v) = r.violation {
                    return Err(format!("{v} (concurrent batch at step {si}, grants {:?})", r.trace));
                }
                for (t, outs) in r.outcomes.iter().enumerate() {
                    for (i, o) in outs.iter().enumerate() {
                        if matches!(o, OpOutcome::PutOk) {
                            let (k, a, b) = threads[t][i].range();
                            stored.entry(k).or_default().push((a, b));
                        }
                        if matches!(o, OpOutcome::Hit) {
                            hits += 1;
                        }
                    }
                }
                info.label("concurrent-batch");
            },
        }
    }
    info.nontrivial_if(nontrivial);
    info.note = Some(json!({"steps": c.steps.len(), "hits": hits, "capacity": capacity}));
    Ok(())
}

// ---- stream 'wide': items with many chunks (counts around the u8 / u16 / 2^17 widths) ----

#[derive(Clone, Debug, Serialize, Deserialize)]
pub struct WideCase {
    pub key: u8,
    /// (start selector, chunk count) of each stored item
    pub items: Vec<(u32, u32)>,
    /// (item, first chunk relative to the item, length selector)
    pub gets: Vec<(u8, u32, u32)>,
    pub reopen: bool,
}

fn wide_chunk(k: u8, i: u32) -> ([u8; 3], usize) {
    let h = Sm64(0x31DE ^ ((k as u64) << 40) ^ i as u64).next();
    ([h as u8, (h >> 8) as u8, (h >> 16) as u8], 1 + (h >> 24) as usize % 3)
}

fn wide_data(k: u8, a: u32, b: u32) -> (Vec<u32>, Vec<u8>) {
    let mut offsets = Vec::with_capacity((b - a) as usize + 1);
    offsets.push(0u32);
    let mut data = Vec::with_capacity((b - a) as usize * 2);
    for i in a..b {
        let (c, l) = wide_chunk(k, i);
        data.extend_from_slice(&c[..l]);
        offsets.push(data.len() as u32);
    }
    (offsets, data)
}

fn wide_strategy() -> impl Strategy<Value = WideCase> {
    let item = (prop_oneof![2 => Just(0u32), 1 => crate::gen::edge_u32(1 << 20)], crate::gen::edge_u32(140_000).prop_map(|n| n.max(1)));
    (0u8..4, proptest::collection::vec(item, 1..=2), proptest::collection::vec((0u8..2, crate::gen::edge_u32(140_000), crate::gen::edge_u32(140_000)), 1..8), any::<bool>())
        .prop_map(|(key, items, gets, reopen)| WideCase { key, items, gets, reopen })
}

fn wide_oracle(c: &WideCase, info: &mut Case) -> Result<(), String> {
    journal(&serde_json::to_string(c).unwrap_or_default());
    let tmp = tempfile::Builder::new().prefix("xvc-").tempdir_in(crate::engine::work_dir()).map_err(|e| format!("[sig:infra] tempdir: {e}"))?;
    let root = tmp.path().join("cache");
    let mut cache = open(&root, 1 << 30).map_err(|e| format!("[sig:c12-initialize-error] initialize of an empty directory failed: {e}"))?;
    let key = key_of(c.key);
    let mut stored = Vec::new();
    for (s, n) in &c.items {
        let (a, b) = (*s, *s + *n);
        let (o, d) = wide_data(c.key, a, b);
        match cache.put(&key, &cas_types::ChunkRange { start: a, end: b }, &o, &d) {
            Ok(()) => stored.push((a, b)),
            Err(e) => info.label(format!("put-error:{}", e.to_string().chars().take(40).collect::<String>())),
        }
        if *n > 65_535 {
            info.label("item-of-more-than-65535-chunks");
        } else if *n > 255 {
            info.label("item-of-256..65535-chunks");
        }
    }
    let mut hits = 0;
    for round in 0..2 {
        for (it, rel, len) in &c.gets {
            let Some((s, e)) = stored.get(*it as usize % stored.len().max(1)).copied() else { continue };
            let a = s + (*rel).min(e - s - 1);
            let b = (a as u64 + 1 + *len as u64).min(e as u64) as u32;
            let range = cas_types::ChunkRange { start: a, end: b };
            match cache.get(&key, &range) {
                Ok(None) | Err(_) => {},
                Ok(Some(r)) => {
                    hits += 1;
                    let (o, d) = wide_data(c.key, a, b);
                    if r.range != range {
                        return Err(format!("[sig:c12-hit-range] hit for chunks [{a},{b}) of a stored item [{s},{e}) reports range {:?}", r.range));
                    }
                    if r.data[..] != d[..] {
                        return Err(format!("[sig:c12-hit-data] hit for chunks [{a},{b}) of a stored item [{s},{e}) ({} chunks) returned {} bytes that differ from what was stored ({} bytes){}", e - s, r.data.len(), d.len(), if round == 1 { " after a re-open" } else { "" }));
                    }
                    if r.offsets[..] != o[..] {
                        return Err(format!("[sig:c12-hit-offsets] hit for chunks [{a},{b}) of a stored item [{s},{e}) returned offsets that differ from the stored ones"));
                    }
                    if e - s > 65_535 {
                        info.label(if b - s > 65_535 { "hit-reaching-past-chunk-65535-of-item" } else { "hit-below-chunk-65536-of-wide-item" });
                    }
                },
            }
        }
        if !c.reopen || round == 1 {
            break;
        }
        drop(cache);
        cache = open(&root, 1 << 30).map_err(|e| format!("[sig:c12-initialize-error] re-open failed: {e}"))?;
        info.label("reopen");
    }
    info.nontrivial_if(hits > 0 && c.items.iter().any(|(_, n)| *n > 255));
    info.note = Some(json!({"items": c.items, "hits": hits}));
    Ok(())
}

pub fn run(ctx: &Ctx) {
    let n_seq = ctx.tier.pick(6_000, 200_000);
    let n_conc = ctx.tier.pick(2_000, 60_000);
    let n_forged = ctx.tier.pick(3_000, 60_000);
    let n_wide = ctx.tier.pick(1_200, 40_000);
    if ctx.is_worker || ctx.replay.is_some() {
        ctx.explore("sequential", n_seq, 1, || case_strategy(false), oracle);
        ctx.explore("concurrent", n_conc, 1, || case_strategy(true), oracle);
        ctx.explore("forged", n_forged, 1, forged_case_strategy, oracle);
        ctx.explore("wide", n_wide, 1, wide_strategy, wide_oracle);
    } else {
        let env = BTreeMap::new();
        ctx.explore_workers("sequential", n_seq, 16, &env, Duration::from_secs(ctx.tier.pick(600, 7200)));
        ctx.explore_workers("concurrent", n_conc, 16, &env, Duration::from_secs(ctx.tier.pick(600, 7200)));
        ctx.explore_workers("forged", n_forged, 16, &env, Duration::from_secs(ctx.tier.pick(600, 7200)));
        ctx.explore_workers("wide", n_wide, 16, &env, Duration::from_secs(ctx.tier.pick(600, 7200)));
    }
}
