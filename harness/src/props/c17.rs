//! C17 File reconstruction writes exactly the requested bytes at the right offsets.

use std::collections::{BTreeMap, HashMap};
use std::io::{Read, Write};
use std::net::{TcpListener, TcpStream};
use std::path::Path;
use std::sync::atomic::{AtomicBool, AtomicU64, Ordering};
use std::sync::{Arc, Mutex};
use std::time::Duration;

use cas_client::{FileProvider, OutputProvider, RemoteClient};
use cas_object::{serialize_chunk, CompressionScheme};
use cas_types::{CASReconstructionFetchInfo, CASReconstructionTerm, ChunkRange, FileRange, HexMerkleHash, HttpRange};
use chunk_cache::CacheConfig;
use merklehash::MerkleHash;
use proptest::prelude::*;
use serde::{Deserialize, Serialize};
use serde_json::json;

use crate::engine::{idx, journal, Case, Ctx, Job, Sm64};
use crate::session::threadpool;

pub const RULE: &str = "reconstruction plans: 1-5 virtual xorbs (2-20 chunks of 1-200 bytes with pairwise distinct contents, stored uncompressed or LZ4), 1-40 terms (repeated xorbs, differing sizes), fetch ranges that contain the term ranges (often strictly larger, several terms per fetch range), one URL per (xorb, fetch range), optional byte range [a,b) inside the file (single byte, whole file, starting / ending mid-term or exactly on a term boundary, including a first listed term that the offset skips entirely) with the term list trimmed and offset_into_first_range set the way a server does; each plan is reconstructed with the sequential and the parallel writer, without cache, with a cold disk chunk cache and again warm, against a local HTTP range server (127.0.0.1) that delays each response by a generated amount and counts requests; NUM_CONCURRENT_RANGE_GETS in {1, 2, 16} per child process. Oracle: output file = concatenated term data sliced by the byte range, returned length = slice length = output size, sequential = parallel, warm = cold (whether the warm pass needed the network is reported, not asserted). non-trivial = plan with >= 3 terms, a fetch range strictly larger than a term, and a byte range starting and ending mid-term; distinct by fingerprint of the generated plan Stream 'huge' (2 cases quick, 16 thorough, one process): one xorb of 256-512 incompressible chunks of 32-128 KiB, terms = generated sub-ranges of it cycled until the file reaches 2^32 + delta bytes (delta from -70 000 to +500 MiB), whole file or a byte range whose start lies in the first 200 MiB and whose length is 2^32 + a small or large signed delta; both writers without cache; the output file is compared with the requested slice term by term without holding the file in memory; non-trivial there = >= 2^32 requested bytes.";

pub const ASSUMPTIONS: &[&str] = &[
    "fetch URLs are unique per (xorb, fetch range), as production URLs that embed the signed range are (the download de-duplication is keyed by URL only)",
    "offset_into_first_range lies inside the first listed term or equals its length (a first term skipped entirely), and byte ranges lie inside the file (the server's contract)",
    "response completion order is perturbed by generated delays, not enumerated",
    "the output path does not exist before a reconstruction",
];

#[derive(Clone, Debug, Serialize, Deserialize)]
pub struct XorbSpec {
    pub seed: u64,
    pub n_chunks: u8,
    pub lz4: bool,
}

#[derive(Clone, Debug, Serialize, Deserialize)]
pub struct Plan {
    pub xorbs: Vec<XorbSpec>,
    /// (xorb selector, start selector, length selector)
    pub terms: Vec<(u8, u8, u8)>,
    /// extra fetch ranges per xorb: (xorb selector, start, len); terms not covered get their own (expanded) range
    pub fetch: Vec<(u8, u8, u8)>,
    /// slack added around a term when it needs its own fetch range
    pub slack: (u8, u8),
    /// byte range: None, or selectors (a, b); kind 1 = single byte
    pub range: Option<(u16, u16, u8)>,
    pub delays_us: Vec<u16>,
}

fn plan_strategy() -> impl Strategy<Value = Plan> {
    (
        proptest::collection::vec((any::<u64>(), 2u8..20, any::<bool>()).prop_map(|(seed, n_chunks, lz4)| XorbSpec { seed, n_chunks, lz4 }), 1..=5),
        proptest::collection::vec((any::<u8>(), any::<u8>(), any::<u8>()), 1..40),
        proptest::collection::vec((any::<u8>(), any::<u8>(), any::<u8>()), 0..8),
        (0u8..4, 0u8..4),
        proptest::option::weighted(0.7, (any::<u16>(), any::<u16>(), 0u8..7)),
        proptest::collection::vec(prop_oneof![3 => Just(0u16), 2 => 0u16..400, 1 => 400u16..1500], 1..6),
    )
        .prop_map(|(xorbs, terms, fetch, slack, range, delays_us)| Plan { xorbs, terms, fetch, slack, range, delays_us })
}

pub struct BuiltXorb {
    pub hash: MerkleHash,
    pub chunks: Vec<Vec<u8>>,
    /// serialized chunk records concatenated
    pub serialized: Vec<u8>,
    /// physical end offset of each chunk record
    pub phys_end: Vec<u32>,
}

fn build_xorb(i: usize, s: &XorbSpec, plan_tag: u64) -> BuiltXorb {
    let mut r = Sm64(s.seed ^ (i as u64) << 56);
    let mut chunks = Vec::new();
    let mut serialized = Vec::new();
    let mut phys_end = Vec::new();
    for c in 0..s.n_chunks {
        let len = 1 + (r.next() % 200) as usize;
        // contents: compressible runs tagged with (xorb, chunk) so that offset errors are visible
        let mut d = Vec::with_capacity(len);
        let tag = [i as u8, c, r.next() as u8];
        while d.len() < len {
            d.extend_from_slice(&tag);
            d.push((d.len() / 4) as u8);
        }
        d.truncate(len);
        serialize_chunk(&d, &mut serialized, Some(if s.lz4 { CompressionScheme::LZ4 } else { CompressionScheme::None })).unwrap();
        phys_end.push(serialized.len() as u32);
        chunks.push(d);
    }
    let mut h = [0u8; 32];
    Sm64(s.seed ^ 0x17 ^ i as u64 ^ plan_tag).fill(&mut h);
    h[0] = i as u8 + 1;
    BuiltXorb { hash: MerkleHash::from(&h), chunks, serialized, phys_end }
}

// ---------------------------------------------------------------------------------------------
// local HTTP range server

pub struct RangeServer {
    pub port: u16,
    pub requests: Arc<AtomicU64>,
    pub bad_requests: Arc<Mutex<Vec<String>>>,
    stop: Arc<AtomicBool>,
    state: Arc<Mutex<ServerState>>,
}

#[derive(Default)]
struct ServerState {
    /// path -> full serialized chunk region
    blobs: HashMap<String, Arc<Vec<u8>>>,
    delays_us: Vec<u16>,
}

impl RangeServer {
    pub fn start() -> std::io::Result<Arc<RangeServer>> {
        let listener = TcpListener::bind(("127.0.0.1", 0))?;
        let port = listener.local_addr()?.port();
        let srv = Arc::new(RangeServer {
            port,
            requests: Arc::new(AtomicU64::new(0)),
            bad_requests: Arc::new(Mutex::new(Vec::new())),
            stop: Arc::new(AtomicBool::new(false)),
            state: Arc::new(Mutex::new(ServerState::default())),
        });
        let s2 = srv.clone();
        std::thread::spawn(move || {
            for conn in listener.incoming() {
                if s2.stop.load(Ordering::SeqCst) {
                    break;
                }
                if let Ok(stream) = conn {
                    let s3 = s2.clone();
                    std::thread::spawn(move || s3.handle(stream));
                }
            }
        });
        Ok(srv)
    }

    pub fn set(&self, blobs: HashMap<String, Arc<Vec<u8>>>, delays_us: Vec<u16>) {
        let mut st = self.state.lock().unwrap();
        st.blobs = blobs;
        st.delays_us = delays_us;
        self.requests.store(0, Ordering::SeqCst);
    }

    fn handle(&self, mut stream: TcpStream) {
        let _ = stream.set_read_timeout(Some(Duration::from_secs(10)));
        let _ = stream.set_nodelay(true);
        loop {
            // read one request head
            let mut head = Vec::new();
            let mut buf = [0u8; 1];
            loop {
                match stream.read(&mut buf) {
                    Ok(1) => {
                        head.push(buf[0]);
                        if head.ends_with(b"\r\n\r\n") {
                            break;
                        }
                        if head.len() > 16384 {
                            return;
                        }
                    },
                    _ => return,
                }
            }
            let text = String::from_utf8_lossy(&head).to_string();
            let mut lines = text.split("\r\n");
            let req = lines.next().unwrap_or("");
            let path = req.split(' ').nth(1).unwrap_or("").to_string();
            let mut range: Option<(usize, usize)> = None;
            for l in lines {
                let ll = l.to_ascii_lowercase();
                if let Some(v) = ll.strip_prefix("range:") {
                    let v = v.trim();
                    if let Some(v) = v.strip_prefix("bytes=") {
                        if let Some((a, b)) = v.split_once('-') {
                            if let (Ok(a), Ok(b)) = (a.trim().parse::<usize>(), b.trim().parse::<usize>()) {
                                range = Some((a, b));
                            }
                        }
                    }
                }
            }
            let n = self.requests.fetch_add(1, Ordering::SeqCst);
            let (blob, delay) = {
                let st = self.state.lock().unwrap();
                let d = if st.delays_us.is_empty() { 0 } else { st.delays_us[n as usize % st.delays_us.len()] };
                (st.blobs.get(&path).cloned(), d)
            };
            if delay > 0 {
                std::thread::sleep(Duration::from_micros(delay as u64));
            }
            let resp: Vec<u8> = match (blob, range) {
                (Some(b), Some((a, e))) if a <= e && e < b.len() => {
                    let body = &b[a..=e];
                    let mut r = format!(
                        "HTTP/1.1 206 Partial Content\r\nContent-Length: {}\r\nContent-Range: bytes {}-{}/{}\r\nContent-Type: application/octet-stream\r\nConnection: keep-alive\r\n\r\n",
                        body.len(),
                        a,
                        e,
                        b.len()
                    )
                    .into_bytes();
                    r.extend_from_slice(body);
                    r
                },
                (b, rg) => {
                    self.bad_requests.lock().unwrap().push(format!("{req} range={rg:?} known={}", b.is_some()));
                    b"HTTP/1.1 416 Range Not Satisfiable\r\nContent-Length: 0\r\nConnection: close\r\n\r\n".to_vec()
                },
            };
            if stream.write_all(&resp).is_err() {
                return;
            }
        }
    }
}

pub fn server() -> Arc<RangeServer> {
    static S: std::sync::OnceLock<Arc<RangeServer>> = std::sync::OnceLock::new();
    S.get_or_init(|| RangeServer::start().expect("range server")).clone()
}

// ---------------------------------------------------------------------------------------------

struct Materialized {
    xorbs: Vec<BuiltXorb>,
    /// full file = concat of all terms' data
    file: Vec<u8>,
    /// what is handed to the client
    terms: Vec<CASReconstructionTerm>,
    fetch_info: HashMap<HexMerkleHash, Vec<CASReconstructionFetchInfo>>,
    offset_into_first_range: u64,
    byte_range: Option<(u64, u64)>,
    blobs: HashMap<String, Arc<Vec<u8>>>,
    larger_fetch: bool,
    mid_term_range: bool,
    n_fetch_ranges: usize,
}

fn materialize(p: &Plan, port: u16) -> Materialized {
    let plan_tag = crate::engine::fnv64(serde_json::to_string(p).unwrap_or_default().as_bytes());
    let xorbs: Vec<BuiltXorb> = p.xorbs.iter().enumerate().map(|(i, s)| build_xorb(i, s, plan_tag)).collect();
    // terms
    let mut all_terms: Vec<(usize, u32, u32)> = Vec::new();
    for (x, s, l) in &p.terms {
        let xi = *x as usize % xorbs.len();
        let n = xorbs[xi].chunks.len() as u32;
        let start = *s as u32 % n;
        let end = start + 1 + (*l as u32 % (n - start));
        all_terms.push((xi, start, end));
    }
    // fetch ranges: generated ones + own (expanded) ranges for uncovered terms
    let mut fetch: BTreeMap<usize, Vec<(u32, u32)>> = BTreeMap::new();
    for (x, s, l) in &p.fetch {
        let xi = *x as usize % xorbs.len();
        let n = xorbs[xi].chunks.len() as u32;
        let start = *s as u32 % n;
        let end = start + 1 + (*l as u32 % (n - start));
        let v = fetch.entry(xi).or_default();
        if !v.contains(&(start, end)) {
            v.push((start, end));
        }
    }
    let mut larger_fetch = false;
    for (xi, s, e) in &all_terms {
        let v = fetch.entry(*xi).or_default();
        match v.iter().find(|(fs, fe)| fs <= s && fe >= e) {
            Some(f) => {
                if (f.0, f.1) != (*s, *e) {
                    larger_fetch = true;
                }
            },
            None => {
                let n = xorbs[*xi].chunks.len() as u32;
                let fs = s.saturating_sub(p.slack.0 as u32);
                let fe = (e + p.slack.1 as u32).min(n);
                if (fs, fe) != (*s, *e) {
                    larger_fetch = true;
                }
                v.push((fs, fe));
            },
        }
    }
    let mut fetch_info: HashMap<HexMerkleHash, Vec<CASReconstructionFetchInfo>> = HashMap::new();
    let mut blobs = HashMap::new();
    let mut n_fetch_ranges = 0;
    for (xi, ranges) in &fetch {
        let x = &xorbs[*xi];
        let path = format!("/x{xi}");
        blobs.insert(path.clone(), Arc::new(x.serialized.clone()));
        let mut infos = Vec::new();
        for (s, e) in ranges {
            let byte_start = if *s == 0 { 0 } else { x.phys_end[*s as usize - 1] };
            let byte_end_incl = x.phys_end[*e as usize - 1] - 1;
            // one URL per (xorb, range): the range is part of the URL as in signed production URLs
            infos.push(CASReconstructionFetchInfo {
                range: ChunkRange { start: *s, end: *e },
                url: format!("http://127.0.0.1:{port}{path}?r={s}-{e}"),
                url_range: HttpRange { start: byte_start, end: byte_end_incl },
            });
            blobs.insert(format!("{path}?r={s}-{e}"), Arc::new(x.serialized.clone()));
            n_fetch_ranges += 1;
        }
        fetch_info.insert(HexMerkleHash::from(x.hash), infos);
    }
    // file content and term table
    let mut file = Vec::new();
    let mut term_spans: Vec<(usize, usize)> = Vec::new();
    for (xi, s, e) in &all_terms {
        let st = file.len();
        for c in *s..*e {
            file.extend_from_slice(&xorbs[*xi].chunks[c as usize]);
        }
        term_spans.push((st, file.len()));
    }
    let to_term = |(xi, s, e): &(usize, u32, u32), span: &(usize, usize)| CASReconstructionTerm {
        hash: HexMerkleHash::from(xorbs[*xi].hash),
        unpacked_length: (span.1 - span.0) as u32,
        range: ChunkRange { start: *s, end: *e },
    };
    let total = file.len();
    let (terms, offset, byte_range, mid) = match p.range {
        None => (all_terms.iter().zip(term_spans.iter()).map(|(t, sp)| to_term(t, sp)).collect::<Vec<_>>(), 0u64, None, false),
        Some((a, b, kind)) => {
            let mut start = idx(a, total);
            // kinds 4 / 5: the range starts exactly on a term boundary; kind 6: it ends on one
            if kind == 4 || kind == 5 {
                if let Some(sp) = term_spans.iter().rev().find(|sp| sp.0 <= start && sp.0 > 0) {
                    start = sp.0;
                }
            }
            let mut end = match kind {
                1 => start + 1,
                2 => total,
                _ => start + 1 + idx(b, total - start),
            };
            if kind == 6 {
                if let Some(sp) = term_spans.iter().find(|sp| sp.1 >= end) {
                    end = sp.1;
                }
            }
            // server-side trimming: keep the terms that intersect [start, end)
            let mut kept = Vec::new();
            let mut first_start = None;
            let mut first_idx = 0usize;
            for (ti, (t, sp)) in all_terms.iter().zip(term_spans.iter()).enumerate() {
                if sp.1 > start && sp.0 < end {
                    if first_start.is_none() {
                        first_start = Some(sp.0);
                        first_idx = ti;
                    }
                    kept.push(to_term(t, sp));
                }
            }
            let mut fs = first_start.unwrap_or(0);
            // kind 4: a server that does not trim the term ending exactly where the range starts: the first listed
            // term is skipped entirely by the offset (offset == its length)
            if kind == 4 && first_start.is_some() && first_idx > 0 && term_spans[first_idx - 1].1 == start && term_spans[first_idx - 1].1 > term_spans[first_idx - 1].0 {
                kept.insert(0, to_term(&all_terms[first_idx - 1], &term_spans[first_idx - 1]));
                fs = term_spans[first_idx - 1].0;
            }
            let mid = term_spans.iter().all(|sp| sp.0 != start) && term_spans.iter().all(|sp| sp.1 != end);
            (kept, (start - fs) as u64, Some((start as u64, end as u64)), mid)
        },
    };
    Materialized { xorbs, file, terms, fetch_info, offset_into_first_range: offset, byte_range, blobs, larger_fetch, mid_term_range: mid, n_fetch_ranges }
}

fn run_once(client: Arc<RemoteClient>, m: &Materialized, parallel: bool, out: &Path) -> Result<(Vec<u8>, u64), String> {
    let tp = threadpool();
    let terms = m.terms.clone();
    let fi = Arc::new(m.fetch_info.clone());
    let off = m.offset_into_first_range;
    let br = m.byte_range.map(|(a, b)| FileRange { start: a, end: b });
    let provider = OutputProvider::File(FileProvider::new(out.to_path_buf()));
    let _ = std::fs::remove_file(out);
    let r = tp.external_run_async_task(async move {
        if parallel {
            client.reconstruct_file_to_writer_parallel(terms, fi, off, br, &provider, None).await
        } else {
            client.reconstruct_file_to_writer(terms, fi, off, br, &provider, None).await
        }
    });
    match r {
        Ok(Ok(n)) => {
            let bytes = std::fs::read(out).unwrap_or_default();
            Ok((bytes, n))
        },
        Ok(Err(e)) => Err(format!("[sig:c17-reconstruct-error] reconstruction ({}) failed: {e}", if parallel { "parallel" } else { "sequential" })),
        Err(e) => {
            let from_hook = crate::engine::LAST_PANIC_GLOBAL.lock().unwrap().take();
            let msg = from_hook.unwrap_or_else(|| format!("{e:?}"));
            Err(format!("[sig:{}] panic in code under test (reconstruction): {msg}", crate::engine::panic_signature(&msg)))
        },
    }
}

/// one client without cache and one with a disk cache per process (building the HTTP machinery
/// is expensive); xorb hashes are plan-specific, so plans do not see each other's cache entries
fn clients(srv: &Arc<RangeServer>) -> (Arc<RemoteClient>, Arc<RemoteClient>) {
    static CLIENTS: std::sync::OnceLock<(Arc<RemoteClient>, Arc<RemoteClient>, tempfile::TempDir)> = std::sync::OnceLock::new();
    let (c0, c1, _) = CLIENTS.get_or_init(|| {
        let tp = threadpool();
        let dir = tempfile::Builder::new().prefix("xvrc-").tempdir_in(crate::engine::work_dir()).expect("tempdir");
        let endpoint = format!("http://127.0.0.1:{}", srv.port);
        let mk = |cache: Option<std::path::PathBuf>| -> Arc<RemoteClient> {
            let cc = cache.map(|d| CacheConfig { cache_directory: d, cache_size: 4 << 30 });
            let tp2 = tp.clone();
            let endpoint = endpoint.clone();
            let shard_dir = dir.path().join("shards");
            tp.external_run_async_task(async move { Arc::new(RemoteClient::new(tp2, &endpoint, None, &None, &cc, shard_dir, false)) }).expect("client")
        };
        (mk(None), mk(Some(dir.path().join("cache"))), dir)
    });
    (c0.clone(), c1.clone())
}

// ---------------------------------------------------------------------------------------------
// stream 'huge': files and byte ranges around and beyond 2^32 bytes

#[derive(Clone, Debug, Serialize, Deserialize)]
pub struct HugePlan {
    pub seed: u64,
    /// chunks of the one xorb (each 32..128 KiB)
    pub n_chunks: u16,
    /// (start selector, length selector) of the terms, cycled until the file is long enough
    pub terms: Vec<(u16, u16)>,
    /// file length to reach: 2^32 + delta
    pub total_delta: i64,
    /// byte range: (start, signed distance of the end from start + 2^32), clamped into the file
    pub range: Option<(u32, i64)>,
}

fn huge_strategy() -> impl Strategy<Value = HugePlan> {
    let near = || prop_oneof![2 => -70_000i64..70_000, 1 => -3i64..=3, 2 => 0i64..(400 << 20)];
    (
        any::<u64>(),
        256u16..=512,
        proptest::collection::vec((any::<u16>(), prop_oneof![1 => any::<u16>(), 2 => 40_000u16..=u16::MAX]), 1..12),
        prop_oneof![1 => -70_000i64..0, 4 => 1i64..(500 << 20)],
        proptest::option::weighted(0.5, (crate::gen::edge_u32(200 << 20), near())),
    )
        .prop_map(|(seed, n_chunks, terms, total_delta, range)| HugePlan { seed, n_chunks, terms, total_delta, range })
}

fn huge_oracle(p: &HugePlan, info: &mut Case) -> Result<(), String> {
    journal(&serde_json::to_string(p).unwrap_or_default());
    let srv = server();
    // the xorb: incompressible chunks, stored uncompressed
    let mut r = Sm64(p.seed);
    let mut flat: Vec<u8> = Vec::new();
    let mut chunk_off: Vec<usize> = vec![0];
    let mut serialized = Vec::new();
    let mut phys_end: Vec<u32> = Vec::new();
    for _ in 0..p.n_chunks {
        let len = (32 << 10) + (r.next() % (96 << 10) as u64) as usize + 1;
        let d = Sm64(r.next()).bytes(len);
        serialize_chunk(&d, &mut serialized, Some(CompressionScheme::None)).map_err(|e| format!("[sig:infra] serialize_chunk: {e}"))?;
        phys_end.push(serialized.len() as u32);
        flat.extend_from_slice(&d);
        chunk_off.push(flat.len());
    }
    let n = p.n_chunks as u32;
    let mut xh = [0u8; 32];
    Sm64(p.seed ^ 0x4067).fill(&mut xh);
    let xhash = MerkleHash::from(&xh);
    // terms until the file has the wanted length
    let want_total = ((1i64 << 32) + p.total_delta) as u64;
    let mut all_terms: Vec<(u32, u32)> = Vec::new();
    let mut spans: Vec<(u64, u64)> = Vec::new();
    let mut total = 0u64;
    let mut i = 0usize;
    while total < want_total {
        let (ss, ls) = p.terms[i % p.terms.len()];
        i += 1;
        let start = idx(ss, n as usize) as u32;
        let mut end = start + 1 + idx(ls, (n - start) as usize) as u32;
        // the last term is cut (at a chunk boundary) so that the total lands close to the wanted length
        while end > start + 1 && total + (chunk_off[end as usize] - chunk_off[start as usize]) as u64 > want_total + (128 << 10) {
            end -= 1;
        }
        let len = (chunk_off[end as usize] - chunk_off[start as usize]) as u64;
        all_terms.push((start, end));
        spans.push((total, total + len));
        total += len;
    }
    let blob = Arc::new(serialized);
    let mut blobs: HashMap<String, Arc<Vec<u8>>> = HashMap::new();
    let mut infos: Vec<CASReconstructionFetchInfo> = Vec::new();
    for (s, e) in &all_terms {
        if infos.iter().any(|f| f.range.start == *s && f.range.end == *e) {
            continue;
        }
        let byte_start = if *s == 0 { 0 } else { phys_end[*s as usize - 1] };
        infos.push(CASReconstructionFetchInfo {
            range: ChunkRange { start: *s, end: *e },
            url: format!("http://127.0.0.1:{}/huge?r={s}-{e}", srv.port),
            url_range: HttpRange { start: byte_start, end: phys_end[*e as usize - 1] - 1 },
        });
        blobs.insert(format!("/huge?r={s}-{e}"), blob.clone());
    }
    srv.set(blobs, vec![0]);
    let mut fetch_info = HashMap::new();
    fetch_info.insert(HexMerkleHash::from(xhash), infos);
    let fetch_info = Arc::new(fetch_info);
    let to_term = |k: usize| CASReconstructionTerm {
        hash: HexMerkleHash::from(xhash),
        unpacked_length: (spans[k].1 - spans[k].0) as u32,
        range: ChunkRange { start: all_terms[k].0, end: all_terms[k].1 },
    };
    let (start, end) = match p.range {
        None => (0u64, total),
        Some((a, d)) => {
            let a = (a as u64).min(total - 1);
            let e = (a as i64 + (1i64 << 32) + d).clamp(a as i64 + 1, total as i64) as u64;
            (a, e)
        },
    };
    let kept: Vec<usize> = (0..all_terms.len()).filter(|k| spans[*k].1 > start && spans[*k].0 < end).collect();
    let offset = start - spans[kept[0]].0;
    let terms: Vec<CASReconstructionTerm> = kept.iter().map(|k| to_term(*k)).collect();
    let byte_range = p.range.map(|_| FileRange { start, end });
    let want_len = end - start;
    // the outputs (one at a time, > 4 GiB each) go to RAM-backed scratch space when there is plenty of it, so
    // that the check does not depend on the disk's write throughput; otherwise to the work directory
    let shm_free = unsafe {
        let mut st: libc::statvfs = std::mem::zeroed();
        let p = std::ffi::CString::new("/dev/shm").unwrap();
        if libc::statvfs(p.as_ptr(), &mut st) == 0 { st.f_bavail as u64 * st.f_frsize as u64 } else { 0 }
    };
    let base = if shm_free > total + (8u64 << 30) { std::path::PathBuf::from("/dev/shm") } else { crate::engine::work_dir() };
    let tmp = tempfile::Builder::new().prefix("xvr-").tempdir_in(base).map_err(|e| format!("[sig:infra] tempdir: {e}"))?;
    let (c0, _) = clients(&srv);
    for parallel in [true, false] {
        let what = if parallel { "parallel writer" } else { "sequential writer" };
        let out = tmp.path().join(if parallel { "par.out" } else { "seq.out" });
        let (client, t2, fi, br) = (c0.clone(), terms.clone(), fetch_info.clone(), byte_range.clone());
        let provider = OutputProvider::File(FileProvider::new(out.clone()));
        let r = threadpool().external_run_async_task(async move {
            if parallel {
                client.reconstruct_file_to_writer_parallel(t2, fi, offset, br, &provider, None).await
            } else {
                client.reconstruct_file_to_writer(t2, fi, offset, br, &provider, None).await
            }
        });
        let reported = match r {
            Ok(Ok(n)) => n,
            Ok(Err(e)) => return Err(format!("[sig:c17-reconstruct-error] reconstruction ({what}) of {want_len} bytes failed: {e}")),
            Err(e) => {
                let msg = crate::engine::LAST_PANIC_GLOBAL.lock().unwrap().take().unwrap_or_else(|| format!("{e:?}"));
                return Err(format!("[sig:{}] panic in code under test (reconstruction of {want_len} bytes): {msg}", crate::engine::panic_signature(&msg)));
            },
        };
        // compare the output with the requested slice, term by term
        let on_disk = std::fs::metadata(&out).map(|m| m.len()).unwrap_or(0);
        if on_disk != want_len {
            return Err(format!("[sig:c17-output-differs] {what}: output has {on_disk} bytes, the requested slice has {want_len} (file of {total} bytes, byte range {:?}, {} terms)", p.range.map(|_| (start, end)), terms.len()));
        }
        let mut f = std::io::BufReader::with_capacity(8 << 20, std::fs::File::open(&out).map_err(|e| format!("[sig:infra] open output: {e}"))?);
        let mut buf = Vec::new();
        let mut pos = start;
        for k in &kept {
            let (ts, te) = spans[*k];
            let (a, b) = (pos.max(ts), end.min(te));
            let src = &flat[chunk_off[all_terms[*k].0 as usize] + (a - ts) as usize..chunk_off[all_terms[*k].0 as usize] + (b - ts) as usize];
            buf.resize(src.len(), 0);
            f.read_exact(&mut buf).map_err(|e| format!("[sig:infra] read output: {e}"))?;
            if buf[..] != src[..] {
                let at = buf.iter().zip(src.iter()).position(|(x, y)| x != y).unwrap_or(0) as u64 + (a - start);
                return Err(format!("[sig:c17-output-differs] {what}: output differs from the requested slice at offset {at} of {want_len} (file of {total} bytes, byte range {:?})", p.range.map(|_| (start, end))));
            }
            pos = b;
        }
        if reported != want_len {
            return Err(format!("[sig:c17-length] {what}: reported length {reported} but {want_len} bytes were requested / written"));
        }
        let _ = std::fs::remove_file(&out);
    }
    let bad = srv.bad_requests.lock().unwrap().drain(..).collect::<Vec<_>>();
    if !bad.is_empty() {
        return Err(format!("[sig:c17-bad-request] the client issued requests the store cannot serve: {:?}", &bad[..bad.len().min(3)]));
    }
    info.label(if total >= 1 << 32 { "file>=4GiB" } else { "file-just-below-4GiB" });
    info.label(if want_len >= 1 << 32 { "requested>=4GiB" } else { "requested<4GiB" });
    if p.range.is_some() {
        info.label("huge-with-byte-range");
    }
    info.nontrivial_if(want_len >= 1 << 32);
    info.note = Some(json!({"file_bytes": total, "requested": want_len, "terms": terms.len()}));
    Ok(())
}

fn oracle(p: &Plan, info: &mut Case) -> Result<(), String> {
    journal(&serde_json::to_string(p).unwrap_or_default());
    let srv = server();
    let m = materialize(p, srv.port);
    srv.set(m.blobs.clone(), p.delays_us.clone());
    let want: Vec<u8> = match m.byte_range {
        None => m.file.clone(),
        Some((a, b)) => m.file[a as usize..b as usize].to_vec(),
    };
    let tmp = tempfile::Builder::new().prefix("xvr-").tempdir_in(crate::engine::work_dir()).map_err(|e| format!("[sig:infra] tempdir: {e}"))?;
    let (c0, c1) = clients(&srv);
    let check = |what: &str, got: &(Vec<u8>, u64)| -> Result<(), String> {
        if got.0 != want {
            let at = got.0.iter().zip(want.iter()).position(|(a, b)| a != b).unwrap_or(got.0.len().min(want.len()));
            return Err(format!(
                "[sig:c17-output-differs] {what}: output ({} bytes) differs from the requested slice ({} bytes) at offset {at}; {} terms, offset_into_first_range {}, byte range {:?}",
                got.0.len(),
                want.len(),
                m.terms.len(),
                m.offset_into_first_range,
                m.byte_range
            ));
        }
        if got.1 != want.len() as u64 {
            return Err(format!("[sig:c17-length] {what}: reported length {} but {} bytes were requested / written", got.1, want.len()));
        }
        Ok(())
    };
    // no cache
    let seq = run_once(c0.clone(), &m, false, &tmp.path().join("seq.out"))?;
    check("sequential writer, no cache", &seq)?;
    let par = run_once(c0.clone(), &m, true, &tmp.path().join("par.out"))?;
    check("parallel writer, no cache", &par)?;
    if seq.0 != par.0 {
        return Err("[sig:c17-writers-differ] sequential and parallel writers produced different output".into());
    }
    // cold then warm cache, alternating writer by plan
    let parallel_first = p.terms.len() % 2 == 0;
    srv.requests.store(0, Ordering::SeqCst);
    let cold = run_once(c1.clone(), &m, parallel_first, &tmp.path().join("cold.out"))?;
    check("cold cache", &cold)?;
    let cold_reqs = srv.requests.load(Ordering::SeqCst);
    srv.requests.store(0, Ordering::SeqCst);
    let warm = run_once(c1.clone(), &m, !parallel_first, &tmp.path().join("warm.out"))?;
    check("warm cache", &warm)?;
    let warm_reqs = srv.requests.load(Ordering::SeqCst);
    if warm.0 != cold.0 {
        return Err("[sig:c17-warm-differs] warm-cache output differs from cold-cache output".into());
    }
    // (not asserted: a cache insert that lost a race is allowed to fail, then the warm pass re-fetches)
    if warm_reqs != 0 {
        info.label("observation:warm-pass-used-the-network");
    } else {
        info.label("warm-pass-served-from-cache");
    }
    let bad = srv.bad_requests.lock().unwrap().drain(..).collect::<Vec<_>>();
    if !bad.is_empty() {
        return Err(format!("[sig:c17-bad-request] the client issued requests the store cannot serve: {:?}", &bad[..bad.len().min(3)]));
    }
    info.nontrivial_if(m.terms.len() >= 3 && m.larger_fetch && m.mid_term_range);
    if m.larger_fetch {
        info.label("fetch-range-larger-than-term");
    }
    if m.mid_term_range {
        info.label("byte-range-starts-and-ends-mid-term");
    }
    if m.byte_range.is_none() {
        info.label("whole-file");
    }
    if let Some((a, b)) = m.byte_range {
        if b - a == 1 {
            info.label("single-byte-range");
        }
    }
    if m.xorbs.len() < p.terms.len() {
        info.label("repeated-xorbs");
    }
    info.label(format!("concurrent-range-gets={}", std::env::var("HF_XET_NUM_CONCURRENT_RANGE_GETS").unwrap_or_else(|_| "16".into())));
    info.note = Some(json!({"terms": m.terms.len(), "fetch_ranges": m.n_fetch_ranges, "file_bytes": m.file.len(), "requested": want.len(), "cold_requests": cold_reqs}));
    Ok(())
}

pub fn run(ctx: &Ctx) {
    for v in ["http_proxy", "https_proxy", "HTTP_PROXY", "HTTPS_PROXY", "all_proxy", "ALL_PROXY"] {
        std::env::remove_var(v);
    }
    std::env::set_var("NO_PROXY", "127.0.0.1,localhost");
    if ctx.is_worker || ctx.replay.is_some() {
        ctx.explore("plans", 1, 1, plan_strategy, oracle);
        ctx.explore("huge", 1, 1, huge_strategy, huge_oracle);
    } else {
        let per = ctx.tier.pick(700, 12000);
        let mut jobs = Vec::new();
        for (i, n) in [1usize, 2, 16].iter().enumerate() {
            for rep in 0..ctx.tier.pick(2, 5) {
                let mut env = BTreeMap::new();
                env.insert("HF_XET_NUM_CONCURRENT_RANGE_GETS".to_string(), n.to_string());
                jobs.push(Job {
                    name: format!("plans#gets{n}-{rep}"),
                    env,
                    spec: json!({"stream": "plans", "cases": per, "tidx": i * 10 + rep}),
                    timeout: Duration::from_secs(ctx.tier.pick(900, 4 * 3600)),
                });
            }
        }
        // files around and beyond 2^32 bytes: few cases, one process (each case moves > 8 GiB)
        jobs.push(Job {
            name: "huge#0".to_string(),
            env: BTreeMap::new(),
            spec: json!({"stream": "huge", "cases": ctx.tier.pick(2, 16), "tidx": 99}),
            timeout: Duration::from_secs(ctx.tier.pick(1800, 4 * 3600)),
        });
        let (huge, plans): (Vec<_>, Vec<_>) = ctx.run_jobs(jobs, 8).into_iter().partition(|r| r.job.name.starts_with("huge"));
        ctx.absorb_with_journal("plans", plans);
        ctx.absorb_with_journal("huge", huge);
    }
}
