//! C07 Xorb serialization round-trips for every chunk range and compression.

use std::io::Cursor;

use cas_object::byte_grouping::bg4;
use cas_object::{deserialize_chunk, deserialize_chunks, CasObject};
use proptest::prelude::*;
use serde::{Deserialize, Serialize};
use serde_json::json;

use crate::engine::{idx, Case, Ctx, Sm64};
use crate::gen::bytes::{bytes_strategy, Bytes};
use crate::gen::xorb::{build, scheme_name, xorb_spec_strategy, XorbSpec};
use crate::refs::merkle as rm;
use crate::refs::xorb::{self as rx, RefFooter};

pub const RULE: &str = "xorbs of 1..1200 chunks (mostly <= 40) with chunk lengths 1..131072 from byte classes random / constant / periodic / small alphabet / f32 arrays / text / literal, under scheme none, lz4, bg4-lz4 or automatic, serialized with CasObject::serialize; oracle = original data and boundaries, independent reference decoder (own header walk, own BG4 regroup, own footer parse), cross-decoder agreement (sync single, sync multi, async single, async read, async stream with generated fragmentation, and the to-writer variant of each); second stream: BG4 split/regroup variants against the reference for every length 0..67 and generated larger lengths. non-trivial = xorb with >= 2 chunks of which >= 1 stored compressed and >= 1 stored through the incompressible fallback, or a BG4 case of length >= 5; distinct by fingerprint of the generated case";

pub const ASSUMPTIONS: &[&str] = &[
    "LZ4 frame coding itself (lz4_flex) is trusted; the reference decoder uses the same third-party crate for frames",
    "chunk lengths are 1..=131072 bytes (what the chunker can emit)",
];

#[derive(Clone, Debug, Serialize, Deserialize)]
pub struct RtCase {
    pub spec: XorbSpec,
    pub ranges: Vec<(u16, u16)>,
    pub frag: Vec<u16>,
}

fn rt_strategy() -> impl Strategy<Value = RtCase> {
    (xorb_spec_strategy(8, true), proptest::collection::vec((any::<u16>(), any::<u16>()), 30), proptest::collection::vec(any::<u16>(), 1..8))
        .prop_map(|(spec, ranges, frag)| RtCase { spec, ranges, frag })
}

fn rt_oracle(c: &RtCase, info: &mut Case) -> Result<(), String> {
    let b = build(&c.spec)?;
    let n = b.chunk_data.len();
    let mut rd = Cursor::new(&b.bytes);
    let cas = CasObject::deserialize(&mut rd).map_err(|e| format!("[sig:c07-deserialize] deserialize of a freshly serialized xorb failed: {e}"))?;
    if cas != b.cas {
        return Err("[sig:c07-info-roundtrip] deserialized footer differs from the one serialize() returned".into());
    }
    // whole object
    let all = cas.get_all_bytes(&mut rd).map_err(|e| format!("[sig:c07-get-all] {e}"))?;
    if all != b.data {
        return Err(format!("[sig:c07-get-all] get_all_bytes differs from the input ({} vs {} bytes)", all.len(), b.data.len()));
    }
    // boundaries / lengths
    if cas.info.unpacked_chunk_offsets != b.boundaries {
        return Err("[sig:c07-unpacked-offsets] unpacked_chunk_offsets differ from the input boundaries".into());
    }
    if cas.info.num_chunks as usize != n {
        return Err("[sig:c07-num-chunks] num_chunks differs".into());
    }
    for i in 0..n {
        let want = b.chunk_data[i].len() as u32;
        let got = cas.uncompressed_chunk_length(i as u32).map_err(|e| format!("[sig:c07-chunk-length] {e}"))?;
        if got != want {
            return Err(format!("[sig:c07-chunk-length] uncompressed_chunk_length({i}) = {got}, want {want}"));
        }
    }
    // chunk ranges: all when small, generated picks otherwise
    let mut ranges: Vec<(usize, usize)> = Vec::new();
    if n <= 12 {
        for s in 0..n {
            for e in s + 1..=n {
                ranges.push((s, e));
            }
        }
    } else {
        for (a, l) in &c.ranges {
            let s = idx(*a, n);
            let e = s + 1 + idx(*l, n - s);
            ranges.push((s, e));
        }
        ranges.push((0, n));
        ranges.push((n - 1, n));
    }
    let off = |i: usize| if i == 0 { 0usize } else { b.boundaries[i - 1] as usize };
    for (s, e) in &ranges {
        let got = cas.get_bytes_by_chunk_range(&mut rd, *s as u32, *e as u32).map_err(|er| format!("[sig:c07-range] get_bytes_by_chunk_range({s},{e}): {er}"))?;
        if got != b.data[off(*s)..off(*e)] {
            return Err(format!("[sig:c07-range] get_bytes_by_chunk_range({s},{e}) differs from the input slice"));
        }
        let l = cas.uncompressed_range_length(*s as u32, *e as u32).map_err(|er| format!("[sig:c07-range-length] {er}"))?;
        if l as usize != off(*e) - off(*s) {
            return Err(format!("[sig:c07-range-length] uncompressed_range_length({s},{e}) = {l}, want {}", off(*e) - off(*s)));
        }
        let rh = cas.generate_chunk_range_hash(*s as u32, *e as u32).map_err(|er| format!("[sig:c07-range-hash] {er}"))?;
        let want: [u8; 32] = rm::range_hash(&b.hashes[*s..*e]);
        let rhb: [u8; 32] = rh.into();
        if rhb != want {
            return Err(format!("[sig:c07-range-hash] generate_chunk_range_hash({s},{e}) differs from the reference"));
        }
    }
    // invalid ranges are refused, not answered
    if cas.get_bytes_by_chunk_range(&mut rd, 0, n as u32 + 1).is_ok() || cas.get_bytes_by_chunk_range(&mut rd, 1, 1).is_ok() {
        return Err("[sig:c07-invalid-range] an out-of-range / empty chunk range was answered".into());
    }

    // reference decoder over the serialized bytes
    let rxo = rx::parse(&b.bytes).map_err(|e| format!("[sig:c07-ref-parse] the reference decoder rejects the serialized object: {e}"))?;
    if rxo.chunks.len() != n {
        return Err(format!("[sig:c07-ref-chunks] reference decoder finds {} chunks, input had {n}", rxo.chunks.len()));
    }
    let mut stored_compressed = 0;
    let mut stored_fallback = 0;
    for (i, rc) in rxo.chunks.iter().enumerate() {
        if rc.data != b.chunk_data[i] {
            return Err(format!("[sig:c07-ref-data] chunk {i} decodes (reference decoder) to different bytes"));
        }
        if rc.end as u32 != cas.info.chunk_boundary_offsets[i] {
            return Err(format!("[sig:c07-phys-boundary] physical boundary {i}: footer {} vs re-derived {}", cas.info.chunk_boundary_offsets[i], rc.end));
        }
        let payload_len = rc.end - rc.start - 8;
        let ulen = rc.data.len();
        // header scheme None exactly when compression did not shrink
        if rc.scheme == 0 {
            if payload_len != ulen {
                return Err(format!("[sig:c07-none-len] chunk {i} stored uncompressed with payload {payload_len} != {ulen}"));
            }
            match c.spec.scheme % 4 {
                0 => {},
                1 => {
                    let l = lz4_len(&rc.data);
                    if l < ulen {
                        return Err(format!("[sig:c07-fallback] chunk {i} stored uncompressed although LZ4 shrinks it ({l} < {ulen})"));
                    }
                    stored_fallback += 1;
                },
                2 => {
                    let l = lz4_len(&rx::bg4_split(&rc.data));
                    if l < ulen {
                        return Err(format!("[sig:c07-fallback] chunk {i} stored uncompressed although BG4+LZ4 shrinks it ({l} < {ulen})"));
                    }
                    stored_fallback += 1;
                },
                _ => {
                    // automatic: whichever scheme was chosen did not shrink; at least one of them must not shrink
                    if lz4_len(&rc.data) < ulen && lz4_len(&rx::bg4_split(&rc.data)) < ulen {
                        return Err(format!("[sig:c07-fallback] chunk {i} stored uncompressed although both schemes shrink it"));
                    }
                    stored_fallback += 1;
                },
            }
        } else {
            if payload_len >= ulen {
                return Err(format!("[sig:c07-no-shrink] chunk {i} stored with scheme {} but payload {payload_len} >= {ulen}", rc.scheme));
            }
            let req = c.spec.scheme % 4;
            if req == 0 || (req == 1 && rc.scheme != 1) || (req == 2 && rc.scheme != 2) {
                return Err(format!("[sig:c07-wrong-scheme] chunk {i} stored with scheme {} although {} was requested", rc.scheme, scheme_name(req)));
            }
            stored_compressed += 1;
        }
    }
    match &rxo.footer {
        RefFooter::V1 { .. } => rxo.footer_consistent().map_err(|e| format!("[sig:c07-footer] {e}"))?,
        _ => return Err("[sig:c07-footer-kind] serialized object does not end in a version-1 footer".into()),
    }
    if rxo.hash() != b.hash {
        return Err("[sig:c07-hash] reference hash of decoded chunks differs from the input hash".into());
    }

    // decoder agreement on the chunk region
    let content = &b.bytes[..rxo.content_end];
    let (d_sync, idx_sync) = deserialize_chunks(&mut Cursor::new(content)).map_err(|e| format!("[sig:c07-sync-multi] {e}"))?;
    let mut want_idx = vec![0u32];
    want_idx.extend(b.boundaries.iter().copied());
    if d_sync != b.data || idx_sync != want_idx {
        return Err("[sig:c07-sync-multi] deserialize_chunks differs from the input data / boundaries".into());
    }
    // single-chunk decoders, sync and async, chunk by chunk
    let rt = tokio::runtime::Builder::new_current_thread().build().unwrap();
    let mut cur = Cursor::new(content);
    let mut acur = Cursor::new(content.to_vec());
    for i in 0..n.min(60) {
        let (d, clen, ulen) = deserialize_chunk(&mut cur).map_err(|e| format!("[sig:c07-sync-single] chunk {i}: {e}"))?;
        let (d2, clen2, ulen2) = rt
            .block_on(cas_object::deserialize_async::deserialize_chunk(&mut acur))
            .map_err(|e| format!("[sig:c07-async-single] chunk {i}: {e}"))?;
        if d != b.chunk_data[i] || ulen as usize != d.len() || clen != rxo.chunks[i].end - rxo.chunks[i].start {
            return Err(format!("[sig:c07-sync-single] chunk {i} decoded by deserialize_chunk differs"));
        }
        if d2 != d || clen2 != clen || ulen2 != ulen {
            return Err(format!("[sig:c07-async-single] async deserialize_chunk disagrees with the sync decoder on chunk {i}"));
        }
    }
    // stream decoder with generated fragmentation
    let mut pieces: Vec<Result<bytes::Bytes, std::io::Error>> = Vec::new();
    let mut p = 0;
    let mut k = 0;
    while p < content.len() {
        let f = c.frag[k % c.frag.len()];
        k += 1;
        let sz = match f % 4 {
            0 => 1,
            1 => 1 + (f as usize >> 2) % 16,
            _ => 1 + (f as usize) % (content.len().max(1)),
        };
        let e = (p + sz).min(content.len());
        pieces.push(Ok(bytes::Bytes::copy_from_slice(&content[p..e])));
        p = e;
        if pieces.len() > 4000 {
            pieces.push(Ok(bytes::Bytes::copy_from_slice(&content[p..])));
            break;
        }
    }
    let n_pieces = pieces.len();
    let pieces2: Vec<Result<bytes::Bytes, std::io::Error>> = pieces.iter().map(|p| Ok(p.as_ref().unwrap().clone())).collect();
    let (d_stream, idx_stream) = rt
        .block_on(cas_object::deserialize_async::deserialize_chunks_from_stream(futures::stream::iter(pieces)))
        .map_err(|e| format!("[sig:c07-stream] {e}"))?;
    if d_stream != d_sync || idx_stream != idx_sync {
        return Err(format!("[sig:c07-stream] stream decoder ({n_pieces} pieces) disagrees with the sync decoder"));
    }
    // the remaining entry points: the writer variants (sync, async read, stream) and the async-read decoder
    let mut w_sync = Vec::new();
    let (n_sync, idx_w) = cas_object::deserialize_chunks_to_writer(&mut Cursor::new(content), &mut w_sync).map_err(|e| format!("[sig:c07-sync-writer] {e}"))?;
    if w_sync != d_sync || idx_w != idx_sync || n_sync != content.len() {
        return Err(format!("[sig:c07-sync-writer] deserialize_chunks_to_writer disagrees with deserialize_chunks (consumed {n_sync} of {} bytes)", content.len()));
    }
    let (d_ar, idx_ar) = rt
        .block_on(cas_object::deserialize_async::deserialize_chunks_from_async_read(&mut Cursor::new(content.to_vec())))
        .map_err(|e| format!("[sig:c07-async-read] {e}"))?;
    if d_ar != d_sync || idx_ar != idx_sync {
        return Err("[sig:c07-async-read] deserialize_chunks_from_async_read disagrees with the sync decoder".into());
    }
    let mut w_ar = Vec::new();
    let (n_ar, idx_war) = rt
        .block_on(cas_object::deserialize_async::deserialize_chunks_to_writer_from_async_read(&mut Cursor::new(content.to_vec()), &mut w_ar))
        .map_err(|e| format!("[sig:c07-async-read] {e}"))?;
    if w_ar != d_sync || idx_war != idx_sync || n_ar != content.len() {
        return Err("[sig:c07-async-read] deserialize_chunks_to_writer_from_async_read disagrees with the sync decoder".into());
    }
    let mut w_st = Vec::new();
    let (n_st, idx_wst) = rt
        .block_on(cas_object::deserialize_async::deserialize_chunks_to_writer_from_stream(futures::stream::iter(pieces2), &mut w_st))
        .map_err(|e| format!("[sig:c07-stream] writer variant: {e}"))?;
    if w_st != d_sync || idx_wst != idx_sync || n_st != content.len() {
        return Err("[sig:c07-stream] deserialize_chunks_to_writer_from_stream disagrees with the sync decoder".into());
    }

    info.nontrivial_if(n >= 2 && stored_compressed >= 1 && stored_fallback >= 1);
    info.label(format!("scheme={}", scheme_name(c.spec.scheme)));
    if stored_compressed > 0 {
        info.label("has-compressed-chunk");
    }
    if stored_fallback > 0 {
        info.label("has-fallback-chunk");
    }
    if n > 100 {
        info.label("chunks>100");
    }
    if b.chunk_data.iter().any(|d| d.len() == 131072) {
        info.label("has-max-size-chunk");
    }
    for r in 0..4 {
        if b.chunk_data.iter().any(|d| d.len() % 4 == r && d.len() > 8) {
            info.label(format!("len-mod4={r}"));
        }
    }
    info.note = Some(json!({"chunks": n, "bytes": b.data.len(), "serialized": b.bytes.len(), "compressed": stored_compressed, "fallback": stored_fallback}));
    Ok(())
}

fn lz4_len(d: &[u8]) -> usize {
    use std::io::Write;
    let mut enc = lz4_flex::frame::FrameEncoder::new(Vec::new());
    enc.write_all(d).unwrap();
    enc.finish().unwrap().len()
}

// ---------------------------------------------------------------------------------------------

#[derive(Clone, Debug, Serialize, Deserialize)]
pub struct Bg4Case {
    pub data: Bytes,
}

fn bg4_check(d: &[u8]) -> Result<(), String> {
    let want = rx::bg4_split(d);
    let together = bg4::bg4_split_together(d);
    if together != want {
        return Err(format!("[sig:c07-bg4-split] bg4_split_together differs from the reference at length {}", d.len()));
    }
    if bg4::bg4_split(d) != want {
        return Err(format!("[sig:c07-bg4-split] bg4_split differs from the reference at length {}", d.len()));
    }
    let sep = bg4::bg4_split_separate(d);
    let cat: Vec<u8> = sep.iter().flat_map(|g| g.iter().copied()).collect();
    if cat != want {
        return Err(format!("[sig:c07-bg4-split] bg4_split_separate differs from the reference at length {}", d.len()));
    }
    // regroup variants on the grouped form, and on arbitrary input (the decoder sees untrusted data)
    for (name, inp) in [("grouped", &want), ("raw", &d.to_vec())] {
        let r = rx::bg4_regroup(inp);
        for (vn, got) in [
            ("bg4_regroup", bg4::bg4_regroup(inp)),
            ("bg4_regroup_together", bg4::bg4_regroup_together(inp)),
            ("bg4_regroup_together_combined_write_4", bg4::bg4_regroup_together_combined_write_4(inp)),
            ("bg4_regroup_together_combined_write_8", bg4::bg4_regroup_together_combined_write_8(inp)),
        ] {
            if got != r {
                return Err(format!("[sig:c07-bg4-regroup] {vn} differs from the reference on {name} input of length {}", inp.len()));
            }
        }
    }
    if bg4::bg4_regroup_separate(&sep) != d {
        return Err(format!("[sig:c07-bg4-regroup] bg4_regroup_separate(split_separate(d)) != d at length {}", d.len()));
    }
    if rx::bg4_regroup(&want) != d {
        return Err("[sig:c07-bg4-ref] reference split/regroup is not an inverse pair".into());
    }
    Ok(())
}

fn bg4_oracle(c: &Bg4Case, info: &mut Case) -> Result<(), String> {
    let d = c.data.expand();
    bg4_check(&d)?;
    info.nontrivial_if(d.len() >= 5);
    info.label(format!("len-mod4={}", d.len() % 4));
    Ok(())
}

pub fn run(ctx: &Ctx) {
    ctx.enumerate("bg4-small", (0usize..=67).collect::<Vec<_>>(), |n, info| {
        let d = Sm64(*n as u64 + 99).bytes(*n);
        bg4_check(&d)?;
        info.nontrivial_if(*n >= 5);
        Ok(())
    });
    ctx.explore("bg4", ctx.tier.pick(12_000, 60_000), 16, || bytes_strategy(0, 140_000).prop_map(|data| Bg4Case { data }), bg4_oracle);
    ctx.explore("roundtrip", ctx.tier.pick(8_000, 40_000), 16, rt_strategy, rt_oracle);
}
