//! Common orchestration for the session-based properties: the parent draws configurations from a
//! seeded strategy and runs each in child processes (the size constants are per-process lazy
//! statics); the workers explore histories under that configuration.

use std::collections::{BTreeMap, BTreeSet};
use std::time::Duration;

use mdb_shard::file_structs::MDBFileInfo;
use serde_json::json;

use crate::engine::{draw, mix_seed, Case, Ctx, Job};
use crate::session::{conf_strategy, Conf, HistoryObs, SessionObs};

/// Parent side: `n_conf` generated configurations x `cases_per_conf` histories each.
pub fn run_confs(ctx: &Ctx, stream: &str, n_conf: u32, cases_per_conf: u32, frag_bias: bool, fixed: &[Conf]) {
    let mut jobs = Vec::new();
    let mut confs: Vec<Conf> = fixed.to_vec();
    let strat = conf_strategy(frag_bias);
    let mut k = 0u64;
    while (confs.len() as u32) < n_conf + fixed.len() as u32 {
        let mut c = draw(&strat, mix_seed(ctx.seed, &ctx.id, stream, 1000 + k));
        k += 1;
        if ctx.id == "C11" {
            // a capped chunk index reduces dedup by design; C11 is stated for the shipped cap
            c.chunk_index_max = 64 << 20;
        }
        if !confs.contains(&c) {
            confs.push(c);
        }
        if k > 10_000 {
            break;
        }
    }
    // saved replays are bound to the configuration they were found under: one replay-only worker per
    // distinct configuration among the committed replay files of this property
    let mut replay_envs: Vec<BTreeMap<String, String>> = Vec::new();
    if let Ok(rd) = std::fs::read_dir(format!("{}/replays/{}", crate::engine::VERIF_ROOT, ctx.id)) {
        for e in rd.flatten() {
            if let Ok(txt) = std::fs::read_to_string(e.path()) {
                if let Ok(rf) = serde_json::from_str::<crate::engine::ReplayFile>(&txt) {
                    if rf.stream == stream && !replay_envs.contains(&rf.env) && !confs.iter().any(|c| c.env() == rf.env) {
                        replay_envs.push(rf.env);
                    }
                }
            }
        }
    }
    replay_envs.sort();
    for (i, env) in replay_envs.into_iter().enumerate() {
        jobs.push(Job {
            name: format!("{stream}#replays{i}"),
            env,
            spec: json!({"stream": stream, "cases": 0, "tidx": 0}),
            timeout: Duration::from_secs(600),
        });
    }
    for (i, c) in confs.iter().enumerate() {
        jobs.push(Job {
            name: format!("{stream}#conf{i}"),
            env: c.env(),
            spec: json!({"stream": stream, "cases": cases_per_conf, "tidx": i + 1, "conf": c}),
            timeout: Duration::from_secs(ctx.tier.pick(900, 4 * 3600)),
        });
    }
    ctx.add_extra("configurations", json!(confs));
    let results = ctx.run_jobs(jobs, 8);
    ctx.absorb_with_journal(stream, results);
}

pub fn conf_labels(info: &mut Case, c: &Conf) {
    info.label(format!("conf:target=2^{}", c.target_log2));
    info.label(format!("conf:max_xorb_chunks={}", c.max_xorb_chunks()));
    info.label(format!("conf:max_xorb_bytes={}xtarget", c.max_xorb_bytes_mult.max(2)));
}

/// file hash (hex) -> record, from the session's finalize_with_file_info
pub fn file_records(s: &SessionObs) -> BTreeMap<String, MDBFileInfo> {
    let mut m = BTreeMap::new();
    if let Ok((_, infos)) = &s.finalize {
        for fi in infos {
            m.insert(fi.metadata.file_hash.hex(), fi.clone());
        }
    }
    m
}

pub struct Structure {
    pub multi_segment: bool,
    pub hits_earlier_xorb: bool,
    pub self_reference: bool,
    pub shared_xorb: bool,
    pub multi_xorb_file: bool,
}

/// classify the dedup structure of each file of a session (for the non-trivial rules)
pub fn structure(obs: &HistoryObs, si: usize) -> Vec<Option<Structure>> {
    let s = &obs.sessions[si];
    let recs = file_records(s);
    let mut xorb_users: BTreeMap<String, BTreeSet<usize>> = BTreeMap::new();
    let mut per_file = Vec::new();
    for (fi, f) in s.files.iter().enumerate() {
        let rec = f.finish.as_ref().ok().and_then(|(p, _)| crate::session::parse_pointer(p)).and_then(|(h, _)| recs.get(&h).cloned());
        if let Some(r) = &rec {
            for seg in &r.segments {
                xorb_users.entry(seg.cas_hash.hex()).or_default().insert(fi);
            }
        }
        per_file.push(rec);
    }
    per_file
        .iter()
        .map(|rec| {
            rec.as_ref().map(|r| {
                let xs: Vec<String> = r.segments.iter().map(|s| s.cas_hash.hex()).collect();
                let distinct: BTreeSet<&String> = xs.iter().collect();
                Structure {
                    multi_segment: r.segments.len() >= 2,
                    hits_earlier_xorb: xs.iter().any(|x| s.xorbs_before.contains(&format!("default.{x}"))),
                    self_reference: distinct.len() < xs.len(),
                    shared_xorb: xs.iter().any(|x| xorb_users.get(x).map(|u| u.len() >= 2).unwrap_or(false)),
                    multi_xorb_file: distinct.len() >= 2,
                }
            })
        })
        .collect()
}

pub fn structure_labels(info: &mut Case, obs: &HistoryObs) -> (bool, u32) {
    let mut nontrivial = false;
    let mut n = 0;
    let mut seen: BTreeSet<&'static str> = BTreeSet::new();
    for si in 0..obs.sessions.len() {
        for st in structure(obs, si).into_iter().flatten() {
            if st.multi_segment {
                seen.insert("file:multi-segment");
            }
            if st.hits_earlier_xorb {
                seen.insert("file:segment-in-earlier-session-xorb");
            }
            if st.self_reference {
                seen.insert("file:several-segments-in-one-xorb");
            }
            if st.shared_xorb {
                seen.insert("file:xorb-shared-with-other-file");
            }
            if st.multi_xorb_file {
                seen.insert("file:spans-several-xorbs");
            }
            if st.multi_segment && (st.hits_earlier_xorb || st.self_reference || st.shared_xorb) {
                nontrivial = true;
                n += 1;
            }
        }
        let new_xorbs = obs.sessions[si].xorbs_after.difference(&obs.sessions[si].xorbs_before).count();
        if new_xorbs >= 2 {
            seen.insert("session:>=2-new-xorbs");
        }
        if obs.sessions[si].files.len() >= 2 {
            seen.insert("session:>=2-files");
        }
    }
    if obs.sessions.len() >= 2 {
        seen.insert("history:>=2-sessions");
    }
    for l in seen {
        info.label(l);
    }
    (nontrivial, n)
}
