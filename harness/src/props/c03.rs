//! C03 A file's pointer (hash, size) depends only on its bytes and the salt.

use proptest::prelude::*;
use serde::{Deserialize, Serialize};
use serde_json::json;

use super::sess::{conf_labels, run_confs};
use crate::engine::{journal, Case, Ctx};
use crate::refs::chunker as rc;
use crate::refs::merkle as rm;
use crate::session::{call_size, file_strategy, parse_pointer, run_history, Conf, FileSpec, History, RunOpts, SessionSpec};

pub const RULE: &str = "one generated content (chunk-pool recipe incl. repeats, unique chunks, sub-chunk tail, empty) is cleaned in 3-6 generated contexts: different add_data partitions, alone / after / before other files, concurrently with others, against a fresh store or a store whose earlier session already holds the same content, a prefix of it or unrelated files, under two salts; configurations (incl. ingestion block size 1 byte .. 8 MiB and xorb limits) vary per child process. Oracle: the pointer's size equals the byte count and its hash equals the reference chunker + reference Merkle file hash of the bytes under that salt (which pins the value across all contexts and processes); different salts give different hashes for non-empty content; every other file in the histories is checked the same way. non-trivial = content of >= 3 chunks with one context that deduplicated >= 1 chunk and one whose partition ends a call inside a chunk's skipped prefix; distinct by fingerprint of the generated case";

pub const ASSUMPTIONS: &[&str] = &[
    "the file hash of the empty file is the reserved zero hash whatever the salt (the format's convention), so the salt relation is asserted for non-empty content only",
    "concurrent contexts sample OS schedules",
];

#[derive(Clone, Debug, Serialize, Deserialize)]
pub struct Context {
    pub feed: Vec<(u8, u16)>,
    pub before: Vec<FileSpec>,
    pub after: Vec<FileSpec>,
    pub concurrent: bool,
    /// 0 none, 1 earlier session with the same content, 2 earlier session with a prefix of the content, 3 unrelated files
    pub prior: u8,
    pub prior_files: Vec<FileSpec>,
    pub second_salt: bool,
    /// client machine of the last session (0 = the one that ran the earlier session)
    #[serde(default)]
    pub client: u8,
    #[serde(default)]
    pub global_dedup: bool,
    #[serde(default)]
    pub restart: bool,
}

#[derive(Clone, Debug, Serialize, Deserialize)]
pub struct C03Case {
    pub pool_seed: u64,
    pub n_ids: u16,
    pub content: FileSpec,
    pub contexts: Vec<Context>,
}

fn context_strategy() -> impl Strategy<Value = Context> {
    (
        proptest::collection::vec((0u8..8, any::<u16>()), 0..8),
        proptest::collection::vec(file_strategy(false), 0..3),
        proptest::collection::vec(file_strategy(false), 0..2),
        any::<bool>(),
        0u8..4,
        proptest::collection::vec(file_strategy(false), 1..3),
        proptest::bool::weighted(0.3),
        prop_oneof![3 => Just(0u8), 2 => Just(1u8)],
        any::<bool>(),
        proptest::bool::weighted(0.3),
    )
        .prop_map(|(feed, before, after, concurrent, prior, prior_files, second_salt, client, global_dedup, restart)| Context {
            feed,
            before,
            after,
            concurrent,
            prior,
            prior_files,
            second_salt,
            client,
            global_dedup,
            restart,
        })
}

fn case_strategy() -> impl Strategy<Value = C03Case> {
    (any::<u64>(), prop_oneof![4u16..24, 24u16..200], file_strategy(false), proptest::collection::vec(context_strategy(), 3..=6))
        .prop_map(|(pool_seed, n_ids, content, contexts)| C03Case { pool_seed, n_ids, content, contexts })
}

fn oracle(c: &C03Case, info: &mut Case) -> Result<(), String> {
    journal(&serde_json::to_string(c).unwrap_or_default());
    let conf = Conf::active();
    let p = conf.params();
    let mut any_dedup = false;
    let mut any_skip_split = false;
    let mut content_chunks = 0;
    let mut hashes_by_salt: std::collections::BTreeMap<bool, String> = Default::default();
    for (ci, cx) in c.contexts.iter().enumerate() {
        let mut sessions = Vec::new();
        match cx.prior % 4 {
            1 => sessions.push(SessionSpec { files: vec![FileSpec { feed: vec![], ..c.content.clone() }], concurrent: false, yields: vec![], client: 0, restart_before: false, peer: false }),
            2 => {
                let mut pre = c.content.clone();
                let keep = pre.elems.len() / 2;
                pre.elems.truncate(keep);
                pre.tail = None;
                pre.feed = vec![];
                sessions.push(SessionSpec { files: vec![pre], concurrent: false, yields: vec![], client: 0, restart_before: false, peer: false });
            },
            3 => sessions.push(SessionSpec { files: cx.prior_files.clone(), concurrent: false, yields: vec![], client: 0, restart_before: false, peer: false }),
            _ => {},
        }
        let mut files = cx.before.clone();
        let content_index = files.len();
        files.push(FileSpec { feed: cx.feed.clone(), ..c.content.clone() });
        files.extend(cx.after.iter().cloned());
        sessions.push(SessionSpec { files, concurrent: cx.concurrent, yields: vec![1, 0, 2], client: cx.client, restart_before: cx.restart, peer: false });
        let last = sessions.len() - 1;
        let h = History { pool_seed: c.pool_seed, n_ids: c.n_ids, salt_seed: if cx.second_salt { 0x5a17 } else { 0x1111 }, sessions, global_dedup: cx.global_dedup };
        let obs = run_history(&h, RunOpts::default())?;
        for (si, s) in obs.sessions.iter().enumerate() {
            if let Err(e) = &s.finalize {
                return Err(format!("[sig:c03-session-error] finalize failed without injected fault (context {ci}, session {si}): {e}"));
            }
            for (fi, f) in s.files.iter().enumerate() {
                let (text, metrics) = f
                    .finish
                    .as_ref()
                    .map_err(|e| format!("[sig:c03-session-error] clean failed without injected fault (context {ci}): {e} {:?}", f.add_err))?;
                let (hash, size) = parse_pointer(text).ok_or_else(|| format!("[sig:c03-pointer-text] pointer text lacks hash / filesize: {text:?}"))?;
                let is_content = si == last && fi == content_index;
                let who = if is_content { "the content file".to_string() } else { format!("file {fi} of session {si}") };
                if size != f.bytes.len() as u64 {
                    return Err(format!("[sig:c03-size] context {ci}: pointer of {who} records size {size}, the file has {} bytes", f.bytes.len()));
                }
                let want = rm::hex(&rm::file_hash(&f.chunks, &obs.salt));
                if hash != want {
                    return Err(format!(
                        "[sig:c03-hash] context {ci} (prior {}, concurrent {}, {} add_data calls): pointer hash of {who} is {hash}, the reference hash of its bytes is {want}",
                        cx.prior % 4,
                        cx.concurrent,
                        f.n_calls
                    ));
                }
                if is_content {
                    content_chunks = f.chunks.len();
                    if metrics.deduped_chunks > 0 {
                        any_dedup = true;
                    }
                    if metrics.deduped_chunks_by_global_dedup > 0 {
                        info.label("content-deduped-through-global-dedup");
                    }
                    // does a call end inside a skipped prefix?
                    if p.skip() > 0 {
                        let bounds = rc::boundaries(&f.bytes, &p);
                        let mut pos = 0usize;
                        for (k, m) in &cx.feed {
                            pos = (pos + call_size(*k, *m, conf.target())).min(f.bytes.len());
                            let start = bounds.iter().rev().find(|b| **b <= pos).copied().unwrap_or(0);
                            if pos > start && pos < start + p.skip() && pos < f.bytes.len() {
                                any_skip_split = true;
                            }
                        }
                    }
                    if let Some(prev) = hashes_by_salt.get(&cx.second_salt) {
                        if *prev != hash {
                            return Err(format!("[sig:c03-context-dependent] the same bytes and salt produced two different hashes in two contexts: {prev} vs {hash}"));
                        }
                    }
                    hashes_by_salt.insert(cx.second_salt, hash.clone());
                }
            }
        }
    }
    if let (Some(a), Some(b)) = (hashes_by_salt.get(&false), hashes_by_salt.get(&true)) {
        if content_chunks > 0 && a == b {
            return Err(format!("[sig:c03-salt-ignored] two different salts produced the same file hash {a} for non-empty content"));
        }
        info.label("both-salts");
    }
    info.nontrivial_if(content_chunks >= 3 && any_dedup && any_skip_split);
    conf_labels(info, &conf);
    if any_dedup {
        info.label("context-with-dedup");
    }
    if any_skip_split {
        info.label("partition-splits-skipped-prefix");
    }
    if content_chunks == 0 {
        info.label("empty-content");
    }
    info.label(format!("conf:ingestion_block={}", if conf.ingestion_block == 1 { "1".to_string() } else if conf.ingestion_block < 8000 { "<8000".to_string() } else { "8MiB".to_string() }));
    info.note = Some(json!({"contexts": c.contexts.len(), "content_chunks": content_chunks}));
    Ok(())
}

pub fn run(ctx: &Ctx) {
    if ctx.is_worker || ctx.replay.is_some() {
        ctx.explore("contexts", 1, 1, case_strategy, oracle);
    } else {
        run_confs(ctx, "contexts", ctx.tier.pick(16, 96), ctx.tier.pick(40, 200), false, &[]);
    }
}
