//! C16 Shards follow their xorbs, and upload failures are never swallowed.

use std::collections::{BTreeMap, BTreeSet};
use std::io::Cursor;

use proptest::prelude::*;
use serde::{Deserialize, Serialize};
use serde_json::json;

use super::sess::{conf_labels, run_confs};
use crate::engine::{journal, Case, Ctx};
use crate::refs::merkle::hex;
use crate::session::{download_batch, history_strategy, run_history, Call, FaultPlan, History, HistoryObs, RunOpts, SessionObs};

pub const RULE: &str = "scenarios = histories of 1-2 sessions (files with dedup structure, several xorbs, small shard thresholds so that several shards are uploaded). Stream 'single': the last session is first run fault-free to count its N store calls (put / upload_shard), then re-run N times with call i failing, sequential cleaning so that call indices are stable - exhaustive per scenario. Stream 'multi': random sets of 1-3 failing calls and random completion delays, with concurrent cleaning. Oracle on the store call log and the session's results: (1) when an upload_shard starts, every xorb referenced by the file records parsed from the bytes handed over has a completed successful put in this session or was in the store before it; (2) if an injected failure fired, add_data, finish or finalize returned an error; (3) if every call returned Ok, every file of the session downloads byte-exactly. non-trivial = a run whose failing call is a xorb put issued before finalize (background upload) or a shard upload; distinct by fingerprint of (scenario, fault plan)";

pub const ASSUMPTIONS: &[&str] = &[
    "faults are injected at the store client boundary (the call returns an error and has no effect)",
    "fault enumeration is exhaustive over single store-call failures of the generated scenario; scenarios themselves are sampled",
];

#[derive(Clone, Debug, Serialize, Deserialize)]
pub struct Scenario {
    pub history: History,
}

#[derive(Clone, Debug, Serialize, Deserialize)]
pub struct MultiCase {
    pub history: History,
    pub fail_calls: Vec<u16>,
    pub delays: Vec<u8>,
}

fn scenario_strategy() -> impl Strategy<Value = Scenario> {
    history_strategy(false, 2, 3).prop_map(|mut history| {
        for s in history.sessions.iter_mut() {
            s.concurrent = false;
            s.client = 0;
            s.restart_before = false;
        }
        history.global_dedup = false;
        Scenario { history }
    })
}

fn multi_strategy() -> impl Strategy<Value = MultiCase> {
    (history_strategy(false, 2, 5), proptest::collection::vec(0u16..14, 1..4), proptest::collection::vec(0u8..6, 0..5)).prop_map(|(mut history, fail_calls, delays)| {
        for s in history.sessions.iter_mut() {
            s.client = 0;
        }
        history.global_dedup = false;
        MultiCase { history, fail_calls, delays }
    })
}

/// oracle (1): shard uploads only after the xorbs they reference
fn check_order(s: &SessionObs, si: usize) -> Result<usize, String> {
    let mut stored: BTreeSet<String> = s.xorbs_before.iter().map(|n| n.strip_prefix("default.").unwrap_or(n).to_string()).collect();
    let mut shard_uploads = 0;
    for e in &s.log {
        match (&e.call, e.start) {
            (Call::Put { hash, .. }, false) => {
                if matches!(e.result, Some(Ok(_))) {
                    stored.insert(hex(hash));
                }
            },
            (Call::UploadShard { hash, .. }, true) => {
                shard_uploads += 1;
                let bytes = e.shard_bytes.as_ref().unwrap();
                let si_ = mdb_shard::MDBShardInfo::load_from_reader(&mut Cursor::new(&bytes[..]))
                    .map_err(|er| format!("[sig:c16-shard-unreadable] shard {} handed to the store does not parse: {er}", hex(hash)))?;
                let files = si_.read_all_file_info_sections(&mut Cursor::new(&bytes[..])).map_err(|er| format!("[sig:c16-shard-unreadable] {er}"))?;
                for f in &files {
                    for seg in &f.segments {
                        let x = seg.cas_hash.hex();
                        if !stored.contains(&x) {
                            return Err(format!(
                                "[sig:c16-shard-before-xorb] session {si}: shard {} was handed to the store while xorb {x}, referenced by file record {}, had no completed successful upload",
                                &hex(hash)[..12],
                                &f.metadata.file_hash.hex()[..12]
                            ));
                        }
                    }
                }
            },
            _ => {},
        }
    }
    Ok(shard_uploads)
}

struct Outcome {
    fired: Vec<(usize, bool, bool)>, // (call index, is shard upload, started before finalize)
    any_err: bool,
    all_ok: bool,
}

fn outcome(s: &SessionObs) -> Outcome {
    let mut fired = Vec::new();
    let mut finalize_seq = u64::MAX;
    for e in &s.log {
        if let Call::Marker(m) = &e.call {
            if m == "finalize-start" {
                finalize_seq = e.seq;
            }
        }
    }
    for e in &s.log {
        if e.start && e.injected_fault {
            fired.push((e.call_index, matches!(e.call, Call::UploadShard { .. }), e.seq < finalize_seq));
        }
    }
    let file_err = s.files.iter().any(|f| f.add_err.is_some() || f.finish.is_err());
    let any_err = file_err || s.finalize.is_err();
    Outcome { fired, any_err, all_ok: !any_err }
}

fn check_run(obs: &HistoryObs, target_session: usize, what: &str) -> Result<(bool, usize), String> {
    let mut nontrivial = false;
    let mut shard_uploads = 0;
    for (si, s) in obs.sessions.iter().enumerate() {
        shard_uploads += check_order(s, si)?;
        let o = outcome(s);
        if !o.fired.is_empty() && !o.any_err {
            return Err(format!(
                "[sig:c16-failure-swallowed] {what}: store call(s) {:?} of session {si} failed (injected) but add_data, finish and finalize all returned Ok",
                o.fired.iter().map(|f| (f.0, if f.1 { "upload_shard" } else { "put" })).collect::<Vec<_>>()
            ));
        }
        if o.fired.iter().any(|f| f.1 || f.2) {
            nontrivial = true;
        }
        if o.all_ok {
            // (3) everything downloads
            let reqs: Vec<(String, Option<(u64, u64)>)> = s.files.iter().map(|f| (f.finish.as_ref().unwrap().0.clone(), None)).collect();
            let got = download_batch(obs.config.clone(), reqs)?;
            for (fi, r) in got.into_iter().enumerate() {
                let (bytes, _) = r.map_err(|e| format!("[sig:c16-success-but-not-downloadable] {what}: session {si} reported success but file {fi} does not download: {e}"))?;
                if bytes != s.files[fi].bytes[..] {
                    return Err(format!("[sig:c16-success-but-wrong-bytes] {what}: session {si} reported success but file {fi} downloads with different bytes"));
                }
            }
        } else if si < target_session {
            return Err(format!("[sig:c16-session-error] {what}: a fault-free session failed: {:?}", s.finalize.as_ref().err()));
        }
    }
    Ok((nontrivial, shard_uploads))
}

fn single_oracle(c: &Scenario, info: &mut Case) -> Result<(), String> {
    journal(&serde_json::to_string(c).unwrap_or_default());
    let last = c.history.sessions.len() - 1;
    // fault-free dry run: count the store calls of the last session
    let dry = run_history(&c.history, RunOpts::default())?;
    let (_, shard_uploads) = check_run(&dry, last + 1, "fault-free run")?;
    let n_calls = dry.sessions[last].log.iter().filter(|e| e.start && !matches!(e.call, Call::Marker(_))).count();
    if n_calls > 30 {
        // keep the per-scenario enumeration exhaustive and the tier's work bounded
        info.label("skipped-scenario:more-than-30-store-calls");
        return Ok(());
    }
    let kinds: Vec<bool> = dry.sessions[last].log.iter().filter(|e| e.start && !matches!(e.call, Call::Marker(_))).map(|e| matches!(e.call, Call::UploadShard { .. })).collect();
    let mut nontrivial_runs = 0;
    for i in 0..n_calls {
        let mut plans = BTreeMap::new();
        plans.insert(last, FaultPlan { fail_calls: vec![i as u16], delays: vec![] });
        let obs = run_history(&c.history, RunOpts { plans, stop_on_failure: false, ..Default::default() })?;
        let o = outcome(&obs.sessions[last]);
        if o.fired.is_empty() {
            // the re-run issued fewer store calls than the dry run (shard grouping depends on file
            // modification times): this fault point does not exist in this run - skipped and counted
            info.label("skipped-fault-point:call-sequence-changed");
            continue;
        }
        let (nt, _) = check_run(&obs, last, &format!("call {i} of {n_calls} ({}) failing", if kinds[i] { "upload_shard" } else { "put" }))?;
        if nt {
            nontrivial_runs += 1;
        }
    }
    info.nontrivial_if(nontrivial_runs > 0);
    info.label(format!("store-calls={}", n_calls.min(12)));
    if shard_uploads >= 2 {
        info.label(">=2-shard-uploads");
    }
    if kinds.iter().filter(|k| !**k).count() >= 2 {
        info.label(">=2-xorb-puts");
    }
    conf_labels(info, &dry.conf);
    // each fault run is an evaluation of its own
    info.note = Some(json!({"store_calls": n_calls, "fault_runs": n_calls, "nontrivial_fault_runs": nontrivial_runs}));
    FAULT_RUNS.fetch_add(n_calls as u64 + 1, std::sync::atomic::Ordering::Relaxed);
    NONTRIVIAL_FAULT_RUNS.fetch_add(nontrivial_runs as u64, std::sync::atomic::Ordering::Relaxed);
    Ok(())
}

pub static FAULT_RUNS: std::sync::atomic::AtomicU64 = std::sync::atomic::AtomicU64::new(0);
pub static NONTRIVIAL_FAULT_RUNS: std::sync::atomic::AtomicU64 = std::sync::atomic::AtomicU64::new(0);

fn multi_oracle(c: &MultiCase, info: &mut Case) -> Result<(), String> {
    journal(&serde_json::to_string(c).unwrap_or_default());
    let last = c.history.sessions.len() - 1;
    let mut plans = BTreeMap::new();
    for si in 0..last {
        plans.insert(si, FaultPlan { fail_calls: vec![], delays: c.delays.clone() });
    }
    plans.insert(last, FaultPlan { fail_calls: c.fail_calls.clone(), delays: c.delays.clone() });
    let obs = run_history(&c.history, RunOpts { plans, stop_on_failure: false, ..Default::default() })?;
    let (nt, _) = check_run(&obs, last, &format!("calls {:?} failing with delays {:?}", c.fail_calls, c.delays))?;
    let o = outcome(&obs.sessions[last]);
    info.nontrivial_if(nt);
    if o.fired.is_empty() {
        info.label("multi:no-fault-fired");
    } else {
        info.label(format!("multi:faults-fired={}", o.fired.len().min(3)));
    }
    if c.history.sessions[last].concurrent && c.history.sessions[last].files.len() > 1 {
        info.label("multi:concurrent-cleaning");
    }
    FAULT_RUNS.fetch_add(1, std::sync::atomic::Ordering::Relaxed);
    Ok(())
}

pub fn run(ctx: &Ctx) {
    if ctx.is_worker || ctx.replay.is_some() {
        ctx.explore("single", 1, 1, scenario_strategy, single_oracle);
        ctx.explore("multi", 1, 1, multi_strategy, multi_oracle);
        ctx.bump_extra("fault_runs", FAULT_RUNS.load(std::sync::atomic::Ordering::Relaxed));
        ctx.bump_extra("nontrivial_fault_runs", NONTRIVIAL_FAULT_RUNS.load(std::sync::atomic::Ordering::Relaxed));
    } else {
        run_confs(ctx, "single", ctx.tier.pick(16, 64), ctx.tier.pick(16, 80), false, &[]);
        run_confs(ctx, "multi", ctx.tier.pick(16, 64), ctx.tier.pick(60, 300), false, &[]);
    }
}
