//! C18 Keyed shards protect chunk hashes, keep dedup working, and expire.

use std::collections::BTreeSet;
use std::io::Cursor;
use std::sync::Arc;
use std::time::{Duration, SystemTime, UNIX_EPOCH};

use mdb_shard::cas_structs::MDBCASInfo;
use mdb_shard::file_structs::MDBFileInfo;
use mdb_shard::{MDBShardFile, MDBShardInfo, ShardFileManager};
use merklehash::compute_data_hash;
use proptest::prelude::*;
use serde::{Deserialize, Serialize};
use serde_json::json;

use super::c05::{key_of, Query, Universe};
use crate::engine::{idx, Case, Ctx, Sm64};
use crate::gen::shard::{materialize, mh, serialize, shard_spec, ShardModel, ShardSpec, K};
use crate::refs::merkle::{self as rm, H};

pub const RULE: &str = "export stream: generated shard contents x key (random, or the zero key meaning unkeyed) x the 8 include-flag combinations x validity, through MDBShardInfo::export_as_keyed_shard, its streaming variant and MDBShardFile::export_as_keyed_shard; oracle = field-wise model of the export (xorb headers and kept file records unchanged, every chunk hash = keyed-BLAKE3(key, original) by an independent HMAC, no chunk entry or chunk-table key equal to an original value, tables present iff requested and equal to the recomputed sorted tables, footer key / creation <= expiry = creation + validity, totals). manager stream: a shard manager over the original shard and one over each export (1-3 keys in one directory, with and without tables) must return identical answers to generated unkeyed queries (universes with pairwise distinct chunk hashes so that the answer is unique). expiry stream: footers with expiry in {0, far past .. now-100 s, now+100 s .. far future, MAX-1, MAX} x grace in {0, 50 s, 10^6 s, MAX}: loaded iff now <= expiry, deleted iff expiry + grace (saturating) <= now, export_with_expiration keeps content and sets expiry. non-trivial = non-zero key with file info kept but no lookup tables, or a directory with >= 2 keys answering >= 1 positive query, or an expiry case (past expiry) that is not loaded; distinct by fingerprint of the generated case Stream 'wide': one shard with a xorb of 1 .. 70 000 chunks (count biased to 2^16 and its neighbours and to 2^k-1 / 2^k / 2^k+1) plus a small xorb, 1-2 exports (any key, any flags), queries of 1-4 hashes starting at chunks with the same bias: the original's answers are truthful and every export answers exactly like the original; non-trivial there = a positive answer on a xorb of more than 255 chunks.";

pub const ASSUMPTIONS: &[&str] = &[
    "expiry cases keep a margin of 100 s around the wall clock, the only clock-dependent part of the check",
    "the manager differential uses universes whose chunk hashes are pairwise distinct and collision-free in their 64-bit prefix, because with duplicates the (truthful) answer is not unique",
    "keyed-BLAKE3 (blake3 crate) is the HMAC",
];

fn now_secs() -> u64 {
    SystemTime::now().duration_since(UNIX_EPOCH).unwrap().as_secs()
}

#[derive(Clone, Debug, Serialize, Deserialize)]
pub struct ExportCase {
    pub spec: ShardSpec,
    pub key_seed: Option<u64>,
    pub file_info: bool,
    pub cas_lookup: bool,
    pub chunk_lookup: bool,
    pub valid_secs: u32,
}

fn export_case() -> impl Strategy<Value = ExportCase> {
    (shard_spec(300, 300), proptest::option::weighted(0.85, any::<u64>()), any::<bool>(), any::<bool>(), any::<bool>(), prop_oneof![Just(0u32), 1u32..100_000, Just(u32::MAX)])
        .prop_map(|(spec, key_seed, file_info, cas_lookup, chunk_lookup, valid_secs)| ExportCase { spec, key_seed, file_info, cas_lookup, chunk_lookup, valid_secs })
}

fn blank_times(buf: &mut [u8]) {
    // creation timestamp and expiry live at footer offsets 104..120
    let n = buf.len();
    if n >= 200 {
        for b in &mut buf[n - 200 + 104..n - 200 + 120] {
            *b = 0;
        }
    }
}

pub fn check_export(
    what: &str,
    out: &[u8],
    model: &ShardModel,
    key: &H,
    file_info: bool,
    cas_lookup: bool,
    chunk_lookup: bool,
    valid_secs: u64,
    t0: u64,
    t1: u64,
) -> Result<(), String> {
    let zero = *key == [0u8; 32];
    let si = MDBShardInfo::load_from_reader(&mut Cursor::new(out)).map_err(|e| format!("[sig:c18-load] {what}: export does not load: {e}"))?;
    if si.num_bytes() != out.len() as u64 {
        return Err(format!("[sig:c18-num-bytes] {what}: num_bytes {} != {} bytes written", si.num_bytes(), out.len()));
    }
    let fk: H = si.metadata.chunk_hash_hmac_key.into();
    if fk != *key {
        return Err(format!("[sig:c18-footer-key] {what}: footer key differs from the export key"));
    }
    let (cr, ex) = (si.metadata.shard_creation_timestamp, si.metadata.shard_key_expiry);
    if cr < t0 || cr > t1 {
        return Err(format!("[sig:c18-creation] {what}: creation timestamp {cr} outside the export interval [{t0},{t1}]"));
    }
    if ex < cr || ex != cr.saturating_add(valid_secs) {
        // SystemTime addition happens at sub-second resolution: allow the one-second carry
        if !(ex == cr.saturating_add(valid_secs) + 1) {
            return Err(format!("[sig:c18-expiry] {what}: expiry {ex} != creation {cr} + validity {valid_secs}"));
        }
    }
    let mut rd = Cursor::new(out);
    // xorb records: headers unchanged, chunk hashes keyed
    let xs = si.read_all_cas_blocks_full(&mut rd).map_err(|e| format!("[sig:c18-scan] {what}: {e}"))?;
    let want: Vec<&MDBCASInfo> = model.xorbs.values().collect();
    if xs.len() != want.len() {
        return Err(format!("[sig:c18-xorb-count] {what}: export holds {} xorb records, original {}", xs.len(), want.len()));
    }
    let originals: BTreeSet<K> = model.xorbs.values().flat_map(|x| x.chunks.iter().map(|c| *c.chunk_hash)).collect();
    let original_prefixes: BTreeSet<u64> = originals.iter().map(|k| k[0]).collect();
    let mut keyed_prefixes_hit = 0usize;
    for (g, w) in xs.iter().zip(want.iter()) {
        if g.metadata != w.metadata {
            return Err(format!("[sig:c18-xorb-header] {what}: xorb header changed by the export (xorb {:016x}..)", w.metadata.cas_hash[0]));
        }
        if g.chunks.len() != w.chunks.len() {
            return Err(format!("[sig:c18-chunk-count] {what}: chunk list length changed"));
        }
        for (gc, wc) in g.chunks.iter().zip(w.chunks.iter()) {
            let oh: H = wc.chunk_hash.into();
            let expect = if zero { oh } else { rm::hmac(&oh, key) };
            let gh: H = gc.chunk_hash.into();
            if gh != expect {
                return Err(format!("[sig:c18-chunk-hash] {what}: chunk entry is not HMAC(original, key) (zero key: {zero}; left unkeyed: {})", gh == oh));
            }
            if gc.unpacked_segment_bytes != wc.unpacked_segment_bytes || gc.chunk_byte_range_start != wc.chunk_byte_range_start {
                return Err(format!("[sig:c18-chunk-fields] {what}: chunk length / offset changed by the export"));
            }
            if !zero && originals.contains(&*gc.chunk_hash) {
                return Err(format!("[sig:c18-leak] {what}: a keyed chunk entry equals an original chunk hash"));
            }
        }
    }
    // file records
    let fs = si.read_all_file_info_sections(&mut rd).map_err(|e| format!("[sig:c18-scan] {what}: {e}"))?;
    let want_f: Vec<MDBFileInfo> = if file_info { model.files.values().cloned().collect() } else { vec![] };
    if fs != want_f {
        return Err(format!("[sig:c18-file-records] {what}: file records {} (kept: {file_info}), expected {}", fs.len(), want_f.len()));
    }
    if si.metadata.file_lookup_num_entry as usize != want_f.len() {
        return Err(format!("[sig:c18-file-table] {what}: file lookup table has {} entries, expected {}", si.metadata.file_lookup_num_entry, want_f.len()));
    }
    for f in &want_f {
        match si.get_file_reconstruction_info(&mut rd, &f.metadata.file_hash) {
            Ok(Some(g)) if g == *f => {},
            other => return Err(format!("[sig:c18-file-lookup] {what}: kept file {:016x}.. not retrievable: {:?}", f.metadata.file_hash[0], other.map(|o| o.is_some()))),
        }
    }
    // cas lookup table
    let n_cas_tbl = si.metadata.cas_lookup_num_entry as usize;
    if n_cas_tbl != if cas_lookup { want.len() } else { 0 } {
        return Err(format!("[sig:c18-cas-table] {what}: cas lookup table has {n_cas_tbl} entries (requested: {cas_lookup}, xorbs: {})", want.len()));
    }
    if cas_lookup {
        let tbl = si.read_full_cas_lookup(&mut rd).map_err(|e| format!("[sig:c18-scan] {what}: {e}"))?;
        let mut index = 0u32;
        let mut want_t = Vec::new();
        for x in &want {
            want_t.push((x.metadata.cas_hash[0], index));
            index += 1 + x.chunks.len() as u32;
        }
        if tbl != want_t {
            return Err(format!("[sig:c18-cas-table] {what}: cas lookup table differs from the recomputed one"));
        }
    }
    // chunk lookup table
    let n_chunks: usize = want.iter().map(|x| x.chunks.len()).sum();
    let n_chunk_tbl = si.metadata.chunk_lookup_num_entry as usize;
    if n_chunk_tbl != if chunk_lookup { n_chunks } else { 0 } {
        return Err(format!("[sig:c18-chunk-table] {what}: chunk lookup table has {n_chunk_tbl} entries (requested: {chunk_lookup}, chunks: {n_chunks})"));
    }
    let tbl = si.read_all_truncated_hashes(&mut rd).map_err(|e| format!("[sig:c18-scan] {what}: {e}"))?;
    let mut want_t = Vec::new();
    let mut index = 0u32;
    for x in &xs {
        for (i, c) in x.chunks.iter().enumerate() {
            want_t.push((c.chunk_hash[0], (index, i as u32)));
        }
        index += 1 + x.chunks.len() as u32;
    }
    if chunk_lookup && tbl.windows(2).any(|w| w[0].0 > w[1].0) {
        return Err(format!("[sig:c18-chunk-table-unsorted] {what}: rebuilt chunk lookup table is not sorted by (keyed) truncated hash"));
    }
    let mut a = tbl.clone();
    a.sort();
    want_t.sort();
    if a != want_t {
        return Err(format!("[sig:c18-chunk-table] {what}: chunk lookup entries differ from the table recomputed from the keyed chunk lists"));
    }
    if !zero {
        for (k, _) in &tbl {
            if original_prefixes.contains(k) {
                keyed_prefixes_hit += 1;
            }
        }
        // a 64-bit coincidence is astronomically unlikely; more than one is a leak of unkeyed prefixes
        if keyed_prefixes_hit > 1 {
            return Err(format!("[sig:c18-leak-table] {what}: {keyed_prefixes_hit} chunk-table keys equal original truncated hashes"));
        }
    }
    // totals
    let stored: u64 = want.iter().map(|x| x.metadata.num_bytes_in_cas as u64).sum();
    let disk: u64 = want.iter().map(|x| x.metadata.num_bytes_on_disk as u64).sum();
    let mat: u64 = want_f.iter().map(|f| f.segments.iter().map(|s| s.unpacked_segment_bytes as u64).sum::<u64>()).sum();
    if si.stored_bytes() != stored || si.stored_bytes_on_disk() != disk || si.materialized_bytes() != mat {
        return Err(format!("[sig:c18-totals] {what}: footer totals differ from the sums over the exported records"));
    }
    Ok(())
}

fn export_oracle(c: &ExportCase, info: &mut Case) -> Result<(), String> {
    let model = materialize(&c.spec);
    let (buf, sinfo, _) = serialize(&model)?;
    let mut key = [0u8; 32];
    if let Some(s) = c.key_seed {
        Sm64(s).fill(&mut key);
        if key == [0u8; 32] {
            key[0] = 1;
        }
    }
    let valid = Duration::from_secs(c.valid_secs as u64);
    let t0 = now_secs();
    let mut out = Vec::new();
    let n = sinfo
        .export_as_keyed_shard(&mut Cursor::new(&buf), &mut out, mh(&key), valid, c.file_info, c.cas_lookup, c.chunk_lookup)
        .map_err(|e| format!("[sig:c18-export-err] {e}"))?;
    let mut out2 = Vec::new();
    let n2 = MDBShardInfo::export_as_keyed_shard_streaming(&mut Cursor::new(&buf), &mut out2, mh(&key), valid, c.file_info, c.cas_lookup, c.chunk_lookup)
        .map_err(|e| format!("[sig:c18-export-err] streaming: {e}"))?;
    let t1 = now_secs();
    if n != out.len() || n2 != out2.len() {
        return Err("[sig:c18-bytes-written] reported number of bytes written differs from the output length".into());
    }
    check_export("export_as_keyed_shard", &out, &model, &key, c.file_info, c.cas_lookup, c.chunk_lookup, c.valid_secs as u64, t0, t1)?;
    let (mut a, mut b) = (out.clone(), out2.clone());
    blank_times(&mut a);
    blank_times(&mut b);
    if a != b {
        return Err("[sig:c18-streaming-differs] export_as_keyed_shard_streaming output differs from export_as_keyed_shard (beyond timestamps)".into());
    }
    // the file-level export: name = hash of content, same content modulo timestamps
    if (model.files.len() + model.xorbs.len()) % 3 == 0 {
        let tmp = tempfile::tempdir().map_err(|e| e.to_string())?;
        let src = tmp.path().join("src");
        let dst = tmp.path().join("dst");
        std::fs::create_dir_all(&src).unwrap();
        std::fs::create_dir_all(&dst).unwrap();
        let p = model.to_in_memory().write_to_directory(&src).map_err(|e| format!("[sig:c18-write] {e}"))?;
        let sf = MDBShardFile::load_from_file(&p).map_err(|e| format!("[sig:c18-load] {e}"))?;
        let t0 = now_secs();
        let ex = sf.export_as_keyed_shard(&dst, mh(&key), valid, c.file_info, c.cas_lookup, c.chunk_lookup).map_err(|e| format!("[sig:c18-export-err] file: {e}"))?;
        let t1 = now_secs();
        let bytes = std::fs::read(&ex.path).map_err(|e| format!("[sig:c18-export-missing] exported path unreadable: {e}"))?;
        if compute_data_hash(&bytes) != ex.shard_hash || ex.path.file_name().unwrap().to_string_lossy() != format!("{}.mdb", ex.shard_hash.hex()) {
            return Err("[sig:c18-export-name] exported shard file is not named by the hash of its content".into());
        }
        check_export("MDBShardFile::export_as_keyed_shard", &bytes, &model, &key, c.file_info, c.cas_lookup, c.chunk_lookup, c.valid_secs as u64, t0, t1)?;
        info.label("file-level-export");
    }
    let zero = key == [0u8; 32];
    info.nontrivial_if(!zero && c.file_info && !c.cas_lookup && !c.chunk_lookup && model.n_chunks() > 0);
    info.label(format!("flags=f{}c{}k{}", c.file_info as u8, c.cas_lookup as u8, c.chunk_lookup as u8));
    if zero {
        info.label("zero-key");
    }
    info.note = Some(json!({"files": model.files.len(), "xorbs": model.xorbs.len(), "chunks": model.n_chunks()}));
    Ok(())
}

// ---------------------------------------------------------------------------------------------

#[derive(Clone, Debug, Serialize, Deserialize)]
pub struct MgrCase {
    pub spec: ShardSpec,
    /// exports: (key index 0..3 where 0 = zero key, include flags)
    pub exports: Vec<(u8, bool, bool, bool)>,
    pub queries: Vec<Query>,
}

fn mgr_case() -> impl Strategy<Value = MgrCase> {
    (
        shard_spec(8, 120),
        proptest::collection::vec((0u8..4, any::<bool>(), any::<bool>(), any::<bool>()), 1..4),
        proptest::collection::vec(
            (any::<u16>(), any::<u16>(), 0u16..40, 0u8..7, any::<u16>(), any::<u64>())
                .prop_map(|(xorb, start, len, twist, other, seed)| Query { xorb, start, len, twist, other, seed }),
            8..30,
        ),
    )
        .prop_map(|(spec, exports, queries)| MgrCase { spec, exports, queries })
}

/// make chunk hashes pairwise distinct with distinct 64-bit prefixes (unique truthful answers)
fn distinct_chunks(m: &mut ShardModel) {
    let mut n = 0u64;
    for x in m.xorbs.values_mut() {
        for c in x.chunks.iter_mut() {
            n += 1;
            let mut h = [0u8; 32];
            Sm64(n.wrapping_mul(0x9E37_79B9_7F4A_7C15) ^ c.chunk_hash[1]).fill(&mut h);
            c.chunk_hash = mh(&h);
        }
    }
}

fn mgr_oracle(c: &MgrCase, info: &mut Case) -> Result<(), String> {
    let mut model = materialize(&c.spec);
    distinct_chunks(&mut model);
    let uni = Universe::new(&model);
    let rt = tokio::runtime::Builder::new_current_thread().enable_all().build().unwrap();
    let tmp = tempfile::tempdir().map_err(|e| e.to_string())?;
    // the universe is split into one part per export; part i is exported under key k_i
    let parts = c.exports.len().max(1);
    let orig_all = tmp.path().join("orig_all");
    let mixed = tmp.path().join("mixed");
    std::fs::create_dir_all(&orig_all).unwrap();
    std::fs::create_dir_all(&mixed).unwrap();
    let mut positives = 0;
    let mut keys_used = BTreeSet::new();
    let mut part_dirs = Vec::new();
    for (i, (kj, fi, cl, kl)) in c.exports.iter().enumerate() {
        let mut m = ShardModel::default();
        for (j, (k, x)) in model.xorbs.iter().enumerate() {
            if j % parts == i {
                m.xorbs.insert(*k, x.clone());
            }
        }
        for (j, (k, f)) in model.files.iter().enumerate() {
            if j % parts == i {
                m.files.insert(*k, f.clone());
            }
        }
        if m.xorbs.is_empty() && m.files.is_empty() {
            continue;
        }
        let od = tmp.path().join(format!("orig{i}"));
        let ed = tmp.path().join(format!("export{i}"));
        std::fs::create_dir_all(&od).unwrap();
        std::fs::create_dir_all(&ed).unwrap();
        let p = m.to_in_memory().write_to_directory(&od).map_err(|e| format!("[sig:c18-write] {e}"))?;
        m.to_in_memory().write_to_directory(&orig_all).map_err(|e| format!("[sig:c18-write] {e}"))?;
        let sf = MDBShardFile::load_from_file(&p).map_err(|e| format!("[sig:c18-load] {e}"))?;
        let key = if *kj == 0 { [0u8; 32] } else { key_of(*kj) };
        keys_used.insert(*kj);
        sf.export_as_keyed_shard(&ed, mh(&key), Duration::from_secs(3600), *fi, *cl, *kl).map_err(|e| format!("[sig:c18-export-err] {e}"))?;
        sf.export_as_keyed_shard(&mixed, mh(&key), Duration::from_secs(7200 + i as u64), *fi, *cl, *kl).map_err(|e| format!("[sig:c18-export-err] {e}"))?;
        part_dirs.push((format!("export of part {i} (key {kj}, files {fi}, cas table {cl}, chunk table {kl})"), od, ed));
    }
    let r: Result<(), String> = rt.block_on(async {
        let mut pairs: Vec<(String, Arc<ShardFileManager>, Arc<ShardFileManager>)> = Vec::new();
        for (name, od, ed) in &part_dirs {
            let a = ShardFileManager::new_in_session_directory(od).await.map_err(|e| format!("[sig:c18-mgr] {e}"))?;
            let b = ShardFileManager::new_in_session_directory(ed).await.map_err(|e| format!("[sig:c18-mgr] {e}"))?;
            pairs.push((name.clone(), a, b));
        }
        let a = ShardFileManager::new_in_session_directory(&orig_all).await.map_err(|e| format!("[sig:c18-mgr] {e}"))?;
        let b = ShardFileManager::new_in_session_directory(&mixed).await.map_err(|e| format!("[sig:c18-mgr] {e}"))?;
        pairs.push(("mixed directory (each part exported under its own key)".into(), a, b));
        for q in &c.queries {
            let (hashes, _) = uni.build_query(q);
            for (name, m0, m1) in &pairs {
                let a0 = m0.chunk_hash_dedup_query(&hashes).await.map_err(|e| format!("[sig:c18-query-err] original: {e}"))?;
                uni.check_answer("manager over the original shards", &hashes, &a0)?;
                let a1 = m1.chunk_hash_dedup_query(&hashes).await.map_err(|e| format!("[sig:c18-query-err] {name}: {e}"))?;
                uni.check_answer(name, &hashes, &a1)?;
                if a0.is_some() {
                    positives += 1;
                }
                if a1 != a0 {
                    return Err(format!(
                        "[sig:c18-dedup-differs] the manager over the {name} answers {:?} where the manager over the original shard(s) answers {:?} (query of {} hashes)",
                        a1.as_ref().map(|x| (x.0, x.1.chunk_index_start, x.1.chunk_index_end)),
                        a0.as_ref().map(|x| (x.0, x.1.chunk_index_start, x.1.chunk_index_end)),
                        hashes.len()
                    ));
                }
            }
        }
        Ok(())
    });
    r?;
    let nonzero_keys = keys_used.iter().filter(|k| **k != 0).count();
    info.nontrivial_if(nonzero_keys >= 2 && positives >= 1);
    if nonzero_keys >= 2 {
        info.label("two-or-more-keys");
    }
    if c.exports.iter().any(|e| e.0 != 0 && !e.3) {
        info.label("keyed-export-without-chunk-table");
    }
    if positives > 0 {
        info.label("has-positive-answer");
    }
    info.note = Some(json!({"xorbs": uni.xorbs.len(), "exports": c.exports.len(), "queries": c.queries.len(), "positives": positives}));
    Ok(())
}

// ---------------------------------------------------------------------------------------------

#[derive(Clone, Debug, Serialize, Deserialize)]
pub struct ExpiryCase {
    pub spec: ShardSpec,
    /// per shard: (expiry kind, magnitude)
    pub shards: Vec<(u8, u32)>,
    pub grace_kind: u8,
    pub export_valid: u32,
}

fn expiry_case() -> impl Strategy<Value = ExpiryCase> {
    (shard_spec(3, 12), proptest::collection::vec((0u8..8, any::<u32>()), 1..6), 0u8..5, prop_oneof![Just(0u32), 200u32..1_000_000])
        .prop_map(|(spec, shards, grace_kind, export_valid)| ExpiryCase { spec, shards, grace_kind, export_valid })
}

fn expiry_value(kind: u8, mag: u32, now: u64) -> u64 {
    match kind {
        0 => 0,
        1 => now.saturating_sub(1_000_000_000u64.min(100 + mag as u64 * 4)),
        2 => now - 100 - (mag as u64 % 1000),
        3 => now + 100 + (mag as u64 % 1000),
        4 => now + 100 + mag as u64 * 1000,
        5 => u64::MAX - 1,
        6 => u64::MAX,
        _ => now - 100 - (mag as u64 % 2_000_000),
    }
}

fn expiry_oracle(c: &ExpiryCase, info: &mut Case) -> Result<(), String> {
    let model = materialize(&c.spec);
    let uni_x: Vec<(K, MDBCASInfo)> = model.xorbs.iter().map(|(k, v)| (*k, v.clone())).collect();
    let tmp = tempfile::tempdir().map_err(|e| e.to_string())?;
    let dir = tmp.path().join("cache");
    std::fs::create_dir_all(&dir).unwrap();
    let now = now_secs();
    let grace = match c.grace_kind {
        0 => 0u64,
        1 => 50,
        2 => 1_000_000,
        3 => u64::MAX,
        _ => 604_800,
    };
    // build shard files, each holding a distinct slice of the universe, with a patched expiry
    let mut planted: Vec<(String, u64, Vec<K>)> = Vec::new();
    for (i, (kind, mag)) in c.shards.iter().enumerate() {
        let mut m = ShardModel::default();
        for (j, (k, x)) in uni_x.iter().enumerate() {
            if j % c.shards.len() == i {
                m.xorbs.insert(*k, x.clone());
            }
        }
        // make each shard distinct even when empty of xorbs
        for (j, (k, f)) in model.files.iter().enumerate() {
            if j % c.shards.len() == i {
                m.files.insert(*k, f.clone());
            }
        }
        let (mut buf, mut si, _) = serialize(&m)?;
        let expiry = expiry_value(*kind, *mag, now);
        si.metadata.shard_key_expiry = expiry;
        si.metadata.shard_creation_timestamp = 1_600_000_000 + i as u64; // distinct content per shard
        let n = buf.len();
        let mut footer = Vec::new();
        si.metadata.serialize(&mut footer).map_err(|e| e.to_string())?;
        buf[n - footer.len()..].copy_from_slice(&footer);
        let name = format!("{}.mdb", compute_data_hash(&buf).hex());
        std::fs::write(dir.join(&name), &buf).map_err(|e| e.to_string())?;
        planted.push((name, expiry, m.xorbs.keys().cloned().collect()));
    }
    planted.sort();
    planted.dedup_by(|a, b| a.0 == b.0);
    // loaded iff now <= expiry
    let loaded = MDBShardFile::load_all_valid(&dir).map_err(|e| format!("[sig:c18-load-all] {e}"))?;
    let loaded_names: BTreeSet<String> = loaded.iter().map(|s| s.path.file_name().unwrap().to_string_lossy().to_string()).collect();
    let mut not_loaded = 0;
    for (name, expiry, _) in &planted {
        let should = now <= *expiry;
        if loaded_names.contains(name) != should {
            return Err(format!("[sig:c18-expiry-load] shard with expiry {expiry} (now {now}) loaded = {}, expected {should}", loaded_names.contains(name)));
        }
        if !should {
            not_loaded += 1;
        }
    }
    // a manager over the directory does not answer from expired shards
    let rt = tokio::runtime::Builder::new_current_thread().enable_all().build().unwrap();
    let r: Result<(), String> = rt.block_on(async {
        let m = ShardFileManager::new_in_session_directory(&dir).await.map_err(|e| format!("[sig:c18-mgr] {e}"))?;
        for (_, expiry, xs) in &planted {
            for k in xs.iter().take(3) {
                let x = &model.xorbs[k];
                if x.chunks.is_empty() {
                    continue;
                }
                let q = vec![x.chunks[0].chunk_hash];
                let a = m.chunk_hash_dedup_query(&q).await.map_err(|e| format!("[sig:c18-query-err] {e}"))?;
                if now > *expiry {
                    // the chunk may legitimately be found through another (valid) shard holding the same chunk hash
                    if let Some((_, fse)) = &a {
                        let valid_has = planted.iter().any(|(_, e2, xs2)| now <= *e2 && xs2.contains(&*fse.cas_hash));
                        if !valid_has {
                            return Err(format!("[sig:c18-expired-answer] a dedup answer names xorb {:016x}.. which is only recorded in an expired shard", fse.cas_hash[0]));
                        }
                    }
                }
            }
        }
        Ok(())
    });
    r?;
    // deleted iff expiry + grace <= now
    MDBShardFile::clean_expired_shards(&dir, grace).map_err(|e| format!("[sig:c18-clean-err] {e}"))?;
    let remaining: BTreeSet<String> = std::fs::read_dir(&dir).unwrap().flatten().map(|e| e.file_name().to_string_lossy().to_string()).collect();
    let mut deleted = 0;
    let mut kept_expired = 0;
    for (name, expiry, _) in &planted {
        let should_delete = expiry.saturating_add(grace) <= now;
        if remaining.contains(name) == should_delete {
            return Err(format!(
                "[sig:c18-expiry-clean] shard with expiry {expiry}, grace {grace}, now {now}: present after cleaning = {}, expected deleted = {should_delete}",
                remaining.contains(name)
            ));
        }
        if should_delete {
            deleted += 1;
        } else if now > *expiry {
            kept_expired += 1;
        }
    }
    // export_with_expiration keeps the content, names by hash, sets the expiry
    if let Some(sf) = loaded.first() {
        let dst = tmp.path().join("exp");
        std::fs::create_dir_all(&dst).unwrap();
        let before = std::fs::read(&sf.path).unwrap_or_default();
        if !before.is_empty() {
            let t0 = now_secs();
            let ex = sf.export_with_expiration(&dst, Duration::from_secs(c.export_valid as u64)).map_err(|e| format!("[sig:c18-export-exp-err] {e}"))?;
            let t1 = now_secs();
            let after = std::fs::read(&ex.path).map_err(|e| format!("[sig:c18-export-missing] {e}"))?;
            if compute_data_hash(&after) != ex.shard_hash || ex.path.file_name().unwrap().to_string_lossy() != format!("{}.mdb", ex.shard_hash.hex()) {
                return Err("[sig:c18-export-name] export_with_expiration output is not named by the hash of its content".into());
            }
            let e2 = ex.shard.metadata.shard_key_expiry;
            if e2 < t0 + c.export_valid as u64 || e2 > t1 + c.export_valid as u64 + 1 {
                return Err(format!("[sig:c18-export-expiry] export_with_expiration set expiry {e2}, expected about {}", t0 + c.export_valid as u64));
            }
            let mut s2 = ex.shard.metadata.clone();
            s2.shard_key_expiry = sf.shard.metadata.shard_key_expiry;
            if after.len() != before.len() || after[..after.len() - 200] != before[..before.len() - 200] || s2 != sf.shard.metadata {
                return Err("[sig:c18-export-content] export_with_expiration changed more than the expiry field".into());
            }
        }
    }
    info.nontrivial_if(not_loaded >= 1);
    if deleted > 0 {
        info.label("some-deleted");
    }
    if kept_expired > 0 {
        info.label("expired-but-kept-within-grace");
    }
    if not_loaded > 0 {
        info.label("expired-not-loaded");
    }
    info.label(format!("grace-kind={}", c.grace_kind));
    info.note = Some(json!({"shards": planted.len(), "not_loaded": not_loaded, "deleted": deleted, "kept_expired": kept_expired, "grace": grace}));
    let _ = idx;
    Ok(())
}

// ---- stream 'wide': a xorb with chunk counts around 2^16 (the width of the manager's chunk offsets) ----

#[derive(Clone, Debug, Serialize, Deserialize)]
pub struct WideCase {
    pub seed: u64,
    pub n_chunks: u32,
    /// (key index 0..3 where 0 = zero key, include flags)
    pub exports: Vec<(u8, bool, bool, bool)>,
    /// (first chunk, number of hashes)
    pub queries: Vec<(u32, u8)>,
}

fn wide_case() -> impl Strategy<Value = WideCase> {
    (
        any::<u64>(),
        prop_oneof![3 => 65_530u32..65_545, 2 => crate::gen::edge_u32(70_000).prop_map(|n| n.max(1))],
        proptest::collection::vec((0u8..4, any::<bool>(), any::<bool>(), any::<bool>()), 1..3),
        proptest::collection::vec((prop_oneof![2 => 65_530u32..65_540, 2 => crate::gen::edge_u32(70_000)], 1u8..5), 6..20),
    )
        .prop_map(|(seed, n_chunks, exports, queries)| WideCase { seed, n_chunks, exports, queries })
}

fn wide_oracle(c: &WideCase, info: &mut Case) -> Result<(), String> {
    use mdb_shard::cas_structs::{CASChunkSequenceEntry, CASChunkSequenceHeader};
    let mut model = ShardModel::default();
    let mut wide_hashes: Vec<merklehash::MerkleHash> = Vec::with_capacity(c.n_chunks as usize);
    let mut wide_lens: Vec<u32> = Vec::with_capacity(c.n_chunks as usize);
    for (xi, n) in [(0u64, c.n_chunks), (1u64, 5u32)] {
        let mut xh = [0u8; 32];
        Sm64(c.seed ^ 0x18_00 ^ xi).fill(&mut xh);
        let mut chunks = Vec::with_capacity(n as usize);
        let mut pos = 0u32;
        for i in 0..n {
            let mut h = [0u8; 32];
            Sm64((c.seed ^ xi << 40).wrapping_add(i as u64).wrapping_mul(0x9E37_79B9_7F4A_7C15)).fill(&mut h);
            h[8..12].copy_from_slice(&i.to_le_bytes());
            h[12] = xi as u8;
            let len = 1 + (h[0] as u32 % 100);
            chunks.push(CASChunkSequenceEntry::new(mh(&h), len, pos));
            if xi == 0 {
                wide_hashes.push(mh(&h));
                wide_lens.push(len);
            }
            pos += len;
        }
        let meta = CASChunkSequenceHeader::new(mh(&xh), n, pos);
        model.xorbs.insert(crate::gen::shard::key(&xh), MDBCASInfo { metadata: meta, chunks });
    }
    let rt = tokio::runtime::Builder::new_current_thread().enable_all().build().unwrap();
    let tmp = tempfile::tempdir().map_err(|e| e.to_string())?;
    let od = tmp.path().join("orig");
    std::fs::create_dir_all(&od).unwrap();
    let p = model.to_in_memory().write_to_directory(&od).map_err(|e| format!("[sig:c18-write] {e}"))?;
    let sf = MDBShardFile::load_from_file(&p).map_err(|e| format!("[sig:c18-load] {e}"))?;
    let mut dirs = Vec::new();
    for (i, (kj, fi, cl, kl)) in c.exports.iter().enumerate() {
        let ed = tmp.path().join(format!("export{i}"));
        std::fs::create_dir_all(&ed).unwrap();
        let key = if *kj == 0 { [0u8; 32] } else { key_of(*kj) };
        sf.export_as_keyed_shard(&ed, mh(&key), Duration::from_secs(3600), *fi, *cl, *kl).map_err(|e| format!("[sig:c18-export-err] export of a shard with a xorb of {} chunks (key {kj}, files {fi}, cas table {cl}, chunk table {kl}): {e}", c.n_chunks))?;
        dirs.push((format!("export (key {kj}, files {fi}, cas table {cl}, chunk table {kl})"), ed));
    }
    let mut positives = 0;
    let mut at_edge = 0;
    let r: Result<(), String> = rt.block_on(async {
        let m0 = ShardFileManager::new_in_session_directory(&od).await.map_err(|e| format!("[sig:c18-mgr] {e}"))?;
        let mut ms = Vec::new();
        for (name, ed) in &dirs {
            ms.push((name, ShardFileManager::new_in_session_directory(ed).await.map_err(|e| format!("[sig:c18-mgr] {name}: {e}"))?));
        }
        for (s, len) in &c.queries {
            let s = (*s).min(c.n_chunks - 1) as usize;
            let e = (s + *len as usize).min(c.n_chunks as usize);
            let hashes = &wide_hashes[s..e];
            let a0 = m0.chunk_hash_dedup_query(hashes).await.map_err(|e| format!("[sig:c18-query-err] original: {e}"))?;
            let view = |a: &Option<(usize, mdb_shard::file_structs::FileDataSequenceEntry)>| a.as_ref().map(|x| (x.0, x.1.chunk_index_start, x.1.chunk_index_end, x.1.unpacked_segment_bytes));
            if let Some((k, fse)) = &a0 {
                positives += 1;
                let bytes: u32 = wide_lens[s..s + *k].iter().sum();
                if *k == 0 || *k > hashes.len() || fse.chunk_index_start as usize != s || fse.chunk_index_end as usize != s + *k || fse.unpacked_segment_bytes != bytes {
                    return Err(format!("[sig:c18-untruthful] the manager over the original shard answers {:?} to a query for chunks [{s},{e}) of a xorb of {} chunks", view(&a0), c.n_chunks));
                }
            }
            if (65_534..=65_536).contains(&s) {
                at_edge += 1;
            }
            for (name, m1) in &ms {
                let a1 = m1.chunk_hash_dedup_query(hashes).await.map_err(|e| format!("[sig:c18-query-err] {name}: {e}"))?;
                if view(&a1) != view(&a0) || a1.as_ref().map(|x| x.1.cas_hash) != a0.as_ref().map(|x| x.1.cas_hash) {
                    return Err(format!(
                        "[sig:c18-dedup-differs] the manager over the {name} answers {:?} where the manager over the original shard answers {:?} (query for chunks [{s},{e}) of a xorb of {} chunks)",
                        view(&a1),
                        view(&a0),
                        c.n_chunks
                    ));
                }
            }
        }
        Ok(())
    });
    r?;
    if c.n_chunks > 65_535 {
        info.label("xorb-of-more-than-65535-chunks");
    }
    if at_edge > 0 {
        info.label("query-starting-at-chunk-65534..65536");
    }
    if c.exports.iter().any(|e| !e.3) {
        info.label("wide-export-without-chunk-table");
    }
    info.nontrivial_if(positives > 0 && c.n_chunks > 255);
    info.note = Some(json!({"chunks": c.n_chunks, "exports": c.exports.len(), "queries": c.queries.len(), "positives": positives}));
    Ok(())
}

pub fn run(ctx: &Ctx) {
    ctx.explore("export", ctx.tier.pick(15_000, 500_000), 16, export_case, export_oracle);
    ctx.explore("manager", ctx.tier.pick(6_000, 200_000), 16, mgr_case, mgr_oracle);
    ctx.explore("expiry", ctx.tier.pick(9_000, 300_000), 16, expiry_case, expiry_oracle);
    ctx.explore("wide", ctx.tier.pick(400, 12_000), 16, wide_case, wide_oracle);
}
