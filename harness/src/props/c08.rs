//! C08 Xorb validation accepts only hash-consistent objects and never panics.

use std::collections::BTreeMap;
use std::io::Cursor;
use std::time::Duration;

use cas_object::{validate_cas_object_from_async_read, CasObject};
use merklehash::MerkleHash;
use proptest::prelude::*;
use serde::{Deserialize, Serialize};
use serde_json::json;

use crate::engine::{idx, journal, Case, Ctx, Sm64};
use crate::gen::xorb::{build, xorb_spec_strategy, XorbSpec};
use crate::refs::merkle::{self as rm, H};
use crate::refs::xorb::{self as rx, RefFooter};
use crate::util::{alloc_guard, SlowReader};

pub const RULE: &str = "valid xorbs from the C07 generator rendered with a version-1 footer, a version-0 footer or no footer (footer rebuilt for the mutated chunk list, or left stale), then a mutation program of 0..3 steps: structural (duplicate / drop / swap chunk records), byte flips addressed per region (each chunk header, payloads, every footer field, length suffix), truncation at any offset, inflated counts / offsets / 24-bit chunk lengths, replaced hashes, appended bytes; plus random byte strings with and without a plausible tail. Claimed hash = original | reference hash of the mutated chunk list | footer hash field | random. Each input goes through validate_cas_object, validate_cas_object_from_async_read (generated read fragmentation) and CasObject::deserialize under a per-thread allocation cap, in child processes with a case journal. Oracle = independent reference decoder: acceptance implies decodability, hash equality and footer consistency; canonical valid objects must be accepted for their own hash only. non-trivial = mutated input in which the reference walk still decodes >= 1 chunk record, or any accepted input; distinct by fingerprint of the generated case";

pub const ASSUMPTIONS: &[&str] = &[
    "the streaming validator is specified to ignore a version-0 footer and to accept footer-less objects; the two validators are not required to agree with each other",
    "an object with zero chunks and the all-zero hash is outside the 'valid serialized xorb' clause (the store never emits empty xorbs)",
    "allocation bound: a single allocation request above 1 GiB for an input of at most ~1.2 MiB counts as unbounded",
    "LZ4 frame decoding (lz4_flex) is shared with the reference decoder",
];

const ALLOC_CAP: usize = 1 << 30;

#[derive(Clone, Debug, Serialize, Deserialize)]
pub enum Mutation {
    /// structural, applied to the chunk record list before rendering: 0 duplicate, 1 drop, 2 swap
    Records { kind: u8, a: u16, b: u16 },
    /// flip (xor) one byte inside a region of the rendered object
    Flip { region: u16, pos: u16, xor: u8 },
    Truncate { at: u16 },
    /// overwrite a u32 footer field (count x3, section offsets x2, length suffix) with a derived value
    Field32 { which: u8, how: u8, val: u32 },
    /// overwrite a 24-bit length of a chunk header: which = 0 compressed, 1 uncompressed
    Len24 { chunk: u16, which: u8, how: u8, val: u32 },
    /// replace a hash in the footer: which = 0 xorb hash, k>0 chunk hash k-1
    Hash { which: u16, seed: u64 },
    Append { seed: u64, len: u8 },
    /// change the scheme byte of a chunk header
    Scheme { chunk: u16, val: u8 },
}

#[derive(Clone, Debug, Serialize, Deserialize)]
pub struct MutCase {
    pub spec: XorbSpec,
    /// 0 = version-1 footer, 1 = version-0 footer, 2 = no footer
    pub footer: u8,
    /// rebuild the footer for the structurally mutated chunk list (true) or keep the original's (false)
    pub rebuild_footer: bool,
    pub muts: Vec<Mutation>,
    /// 0 original, 1 reference hash of mutated chunk list, 2 footer hash field, 3 random
    pub claimed: u8,
    pub claimed_seed: u64,
    pub read_sizes: Vec<u16>,
}

#[derive(Clone, Debug, Serialize, Deserialize)]
pub struct RandCase {
    pub seed: u64,
    pub len: u32,
    /// 0 pure random, 1 random + footer ident, 2 random chunk-like header + bytes, 3 random + valid length suffix over ident
    pub shape: u8,
    pub claimed_seed: u64,
}

fn mutation_strategy() -> impl Strategy<Value = Mutation> {
    prop_oneof![
        3 => (0u8..3, any::<u16>(), any::<u16>()).prop_map(|(kind, a, b)| Mutation::Records { kind, a, b }),
        6 => (any::<u16>(), any::<u16>(), 1u8..=255).prop_map(|(region, pos, xor)| Mutation::Flip { region, pos, xor }),
        3 => any::<u16>().prop_map(|at| Mutation::Truncate { at }),
        3 => (0u8..6, 0u8..7, any::<u32>()).prop_map(|(which, how, val)| Mutation::Field32 { which, how, val }),
        3 => (any::<u16>(), 0u8..2, 0u8..7, any::<u32>()).prop_map(|(chunk, which, how, val)| Mutation::Len24 { chunk, which, how, val }),
        2 => (any::<u16>(), any::<u64>()).prop_map(|(which, seed)| Mutation::Hash { which, seed }),
        1 => (any::<u64>(), any::<u8>()).prop_map(|(seed, len)| Mutation::Append { seed, len }),
        1 => (any::<u16>(), any::<u8>()).prop_map(|(chunk, val)| Mutation::Scheme { chunk, val }),
    ]
}

fn mut_strategy() -> impl Strategy<Value = MutCase> {
    (
        xorb_spec_strategy(6, false),
        prop_oneof![5 => Just(0u8), 2 => Just(1u8), 2 => Just(2u8)],
        any::<bool>(),
        proptest::collection::vec(mutation_strategy(), 0..=3),
        prop_oneof![3 => Just(0u8), 4 => Just(1u8), 2 => Just(2u8), 1 => Just(3u8)],
        any::<u64>(),
        proptest::collection::vec(any::<u16>(), 1..5),
    )
        .prop_map(|(spec, footer, rebuild_footer, muts, claimed, claimed_seed, read_sizes)| MutCase {
            spec,
            footer,
            rebuild_footer,
            muts,
            claimed,
            claimed_seed,
            read_sizes,
        })
}

fn rand_strategy() -> impl Strategy<Value = RandCase> {
    (any::<u64>(), prop_oneof![3 => 0u32..64, 3 => 0u32..600, 1 => 0u32..70_000], 0u8..4, any::<u64>())
        .prop_map(|(seed, len, shape, claimed_seed)| RandCase { seed, len, shape, claimed_seed })
}

fn derive32(cur: u32, how: u8, val: u32) -> u32 {
    match how {
        0 => cur.wrapping_add(1),
        1 => cur.wrapping_sub(1),
        2 => cur.wrapping_mul(256),
        3 => u32::MAX,
        4 => 0x7fff_ffff,
        5 => 0,
        _ => val,
    }
}

struct Rendered {
    bytes: Vec<u8>,
    /// (name, start, end) regions for addressed flips
    regions: Vec<(String, usize, usize)>,
    /// offsets of u32 footer fields: n2, n3, n4, hashes_off, bounds_off, len suffix
    fields32: Vec<usize>,
    /// chunk header offsets
    headers: Vec<usize>,
    /// offsets of footer hashes: [xorb hash, chunk hashes...]
    hashes: Vec<usize>,
}

fn render(records: &[(Vec<u8>, Vec<u8>)], footer_kind: u8, stale: Option<&(H, Vec<H>, Vec<u32>, Vec<u32>)>) -> Rendered {
    let mut bytes = Vec::new();
    let mut regions = Vec::new();
    let mut headers = Vec::new();
    let mut bounds = Vec::new();
    let mut unpacked = Vec::new();
    let mut hashes_v = Vec::new();
    let mut acc = 0u32;
    for (i, (rec, data)) in records.iter().enumerate() {
        headers.push(bytes.len());
        regions.push((format!("chunk-header-{i}"), bytes.len(), bytes.len() + 8.min(rec.len())));
        if rec.len() > 8 {
            regions.push((format!("payload-{i}"), bytes.len() + 8, bytes.len() + rec.len()));
        }
        bytes.extend_from_slice(rec);
        bounds.push(bytes.len() as u32);
        acc += data.len() as u32;
        unpacked.push(acc);
        hashes_v.push(rm::chunk_hash(data));
    }
    let leaves: Vec<(H, u64)> = records.iter().zip(hashes_v.iter()).map(|((_, d), h)| (*h, d.len() as u64)).collect();
    let mut xh = rm::xorb_hash(&leaves);
    if let Some((h, hs, b, u)) = stale {
        xh = *h;
        hashes_v = hs.clone();
        bounds = b.clone();
        unpacked = u.clone();
    }
    let n = hashes_v.len();
    let fstart = bytes.len();
    let mut fields32 = Vec::new();
    let mut hash_offs = Vec::new();
    match footer_kind {
        0 => {
            let f = rx::write_footer_v1(&xh, &hashes_v, &bounds, &unpacked);
            bytes.extend_from_slice(&f);
            regions.push(("footer-ident-version".into(), fstart, fstart + 8));
            regions.push(("footer-xorb-hash".into(), fstart + 8, fstart + 40));
            hash_offs.push(fstart + 8);
            let hs = fstart + 40;
            regions.push(("hashes-section-ident-version".into(), hs, hs + 8));
            regions.push(("hashes-section-count".into(), hs + 8, hs + 12));
            fields32.push(hs + 8);
            for i in 0..n {
                hash_offs.push(hs + 12 + 32 * i);
            }
            if n > 0 {
                regions.push(("chunk-hashes".into(), hs + 12, hs + 12 + 32 * n));
            }
            let bs = hs + 12 + 32 * n;
            regions.push(("bounds-section-ident-version".into(), bs, bs + 8));
            regions.push(("bounds-section-count".into(), bs + 8, bs + 12));
            fields32.push(bs + 8);
            if n > 0 {
                regions.push(("physical-offsets".into(), bs + 12, bs + 12 + 4 * n));
                regions.push(("unpacked-offsets".into(), bs + 12 + 4 * n, bs + 12 + 8 * n));
            }
            let t = bs + 12 + 8 * n;
            regions.push(("tail-count".into(), t, t + 4));
            regions.push(("tail-hashes-offset".into(), t + 4, t + 8));
            regions.push(("tail-bounds-offset".into(), t + 8, t + 12));
            regions.push(("tail-reserved".into(), t + 12, t + 28));
            regions.push(("length-suffix".into(), t + 28, t + 32));
            fields32.extend_from_slice(&[t, t + 4, t + 8, t + 28]);
        },
        1 => {
            let f = rx::write_footer_v0(&xh, &hashes_v, &bounds);
            bytes.extend_from_slice(&f);
            regions.push(("footer-ident-version".into(), fstart, fstart + 8));
            regions.push(("footer-xorb-hash".into(), fstart + 8, fstart + 40));
            hash_offs.push(fstart + 8);
            regions.push(("v0-count".into(), fstart + 40, fstart + 44));
            fields32.push(fstart + 40);
            if n > 0 {
                regions.push(("physical-offsets".into(), fstart + 44, fstart + 44 + 4 * n));
                regions.push(("chunk-hashes".into(), fstart + 44 + 4 * n, fstart + 44 + 36 * n));
            }
            for i in 0..n {
                hash_offs.push(fstart + 44 + 4 * n + 32 * i);
            }
            let t = fstart + 44 + 36 * n;
            regions.push(("tail-reserved".into(), t, t + 16));
            regions.push(("length-suffix".into(), t + 16, t + 20));
            fields32.push(t + 16);
        },
        _ => {},
    }
    Rendered { bytes, regions, fields32, headers, hashes: hash_offs }
}

pub struct Verdicts {
    pub seek_accept: bool,
    pub stream_accept: bool,
    pub parsed_chunks: usize,
}

fn mh(h: &H) -> MerkleHash {
    MerkleHash::from(h)
}

/// The oracle proper: run the three entry points on `bytes` with `claimed` and compare with the
/// reference decoder.
pub fn check_bytes(bytes: &[u8], claimed: &H, read_sizes: &[u16], pristine_v1: bool) -> Result<Verdicts, String> {
    let claimed_m = mh(claimed);
    // reference view
    let walk = rx::walk(bytes);
    let strict = rx::parse(bytes);

    // --- footer parser
    alloc_guard::arm(ALLOC_CAP);
    let des = CasObject::deserialize(&mut Cursor::new(bytes));
    let (mx, _) = alloc_guard::disarm();
    if mx > ALLOC_CAP / 2 {
        return Err(format!("[sig:c08-alloc] CasObject::deserialize requested {mx} bytes at once for a {}-byte input", bytes.len()));
    }
    if let (Ok(cas), Ok(s)) = (&des, &strict) {
        // a successfully parsed footer must be the footer that is there
        match &s.footer {
            RefFooter::V1 { hash, bounds, unpacked, hashes, .. } => {
                let ch: Vec<H> = cas.info.chunk_hashes.iter().map(|h| (*h).into()).collect();
                let fh: H = cas.info.cashash.into();
                if fh != *hash || cas.info.chunk_boundary_offsets != *bounds || cas.info.unpacked_chunk_offsets != *unpacked || ch != *hashes {
                    return Err("[sig:c08-footer-parse] CasObject::deserialize returns different footer fields than the reference parser".into());
                }
            },
            RefFooter::V0 { hash, bounds, hashes } => {
                let ch: Vec<H> = cas.info.chunk_hashes.iter().map(|h| (*h).into()).collect();
                let fh: H = cas.info.cashash.into();
                if fh != *hash || cas.info.chunk_boundary_offsets != *bounds || ch != *hashes {
                    return Err("[sig:c08-footer-parse] CasObject::deserialize (v0) returns different footer fields than the reference parser".into());
                }
            },
            RefFooter::None => {},
        }
    }

    // --- seekable validator
    alloc_guard::arm(ALLOC_CAP);
    let r_seek = CasObject::validate_cas_object(&mut Cursor::new(bytes), &claimed_m);
    let (mx, _) = alloc_guard::disarm();
    if mx > ALLOC_CAP / 2 {
        return Err(format!("[sig:c08-alloc] validate_cas_object requested {mx} bytes at once for a {}-byte input", bytes.len()));
    }
    let seek_accept = matches!(r_seek, Ok(Some(_)));
    if let Ok(Some(cas)) = &r_seek {
        let s = strict.as_ref().map_err(|e| format!("[sig:c08-seek-accepts-undecodable] validate_cas_object accepted an object the reference decoder rejects: {e}"))?;
        if matches!(s.footer, RefFooter::None) {
            return Err("[sig:c08-seek-accepts-no-footer] validate_cas_object accepted an object without footer".into());
        }
        if s.hash() != *claimed {
            return Err("[sig:c08-seek-accepts-wrong-hash] validate_cas_object accepted an object whose recomputed hash differs from the claimed hash".into());
        }
        s.footer_consistent().map_err(|e| format!("[sig:c08-seek-accepts-bad-footer] validate_cas_object accepted an object whose footer does not match the data: {e}"))?;
        returned_info_matches(cas, s, claimed, "validate_cas_object")?;
    }

    // --- streaming validator
    let sizes: Vec<usize> = read_sizes.iter().map(|s| 1 + (*s as usize % 3000)).collect();
    let mut rd = SlowReader::new(bytes, sizes);
    alloc_guard::arm(ALLOC_CAP);
    let r_stream = futures::executor::block_on(validate_cas_object_from_async_read(&mut rd, &claimed_m));
    let (mx, _) = alloc_guard::disarm();
    if mx > ALLOC_CAP / 2 {
        return Err(format!("[sig:c08-alloc] validate_cas_object_from_async_read requested {mx} bytes at once for a {}-byte input", bytes.len()));
    }
    let stream_accept = matches!(r_stream, Ok(Some(_)));
    if let Ok(Some((cas, _))) = &r_stream {
        let (chunks, stop) =
            walk.as_ref().map_err(|e| format!("[sig:c08-stream-accepts-undecodable] the streaming validator accepted an object whose chunk list the reference decoder rejects: {e}"))?;
        let leaves: Vec<(H, u64)> = chunks.iter().map(|c| (rm::chunk_hash(&c.data), c.data.len() as u64)).collect();
        if rm::xorb_hash(&leaves) != *claimed {
            return Err("[sig:c08-stream-accepts-wrong-hash] the streaming validator accepted an object whose recomputed hash differs from the claimed hash".into());
        }
        let at_ident = *stop < bytes.len();
        let version = if at_ident { bytes.get(stop + 7).copied() } else { None };
        if version == Some(1) {
            // it relied on this footer: the whole object must parse strictly and be consistent
            let s = strict.as_ref().map_err(|e| format!("[sig:c08-stream-accepts-bad-footer] the streaming validator accepted an object with a version-1 footer the reference parser rejects: {e}"))?;
            s.footer_consistent().map_err(|e| format!("[sig:c08-stream-accepts-bad-footer] the streaming validator accepted a version-1 footer that does not match the data: {e}"))?;
            returned_info_matches(cas, s, claimed, "validate_cas_object_from_async_read")?;
        } else {
            // footer-less or version-0: it must have synthesised metadata from the data
            let ch: Vec<H> = cas.info.chunk_hashes.iter().map(|h| (*h).into()).collect();
            let want: Vec<H> = leaves.iter().map(|l| l.0).collect();
            let phys: Vec<u32> = chunks.iter().map(|c| c.end as u32).collect();
            if ch != want || cas.info.chunk_boundary_offsets != phys || cas.info.num_chunks as usize != chunks.len() {
                return Err("[sig:c08-stream-synth-footer] the streaming validator returned synthesised metadata that does not match the data".into());
            }
        }
    }

    // --- completeness on canonical valid objects
    if let Ok(s) = &strict {
        let canonical = !s.chunks.is_empty() && s.chunks.iter().all(|c| !c.data.is_empty()) && s.footer_consistent().is_ok();
        if canonical {
            let own = s.hash() == *claimed;
            let footer_v1 = matches!(s.footer, RefFooter::V1 { .. });
            let footer_v0 = matches!(s.footer, RefFooter::V0 { .. });
            if own {
                if (footer_v1 || footer_v0) && !seek_accept && pristine_v1 {
                    return Err(format!("[sig:c08-valid-rejected-seek] validate_cas_object did not accept a valid object for its own hash: {:?}", r_seek.as_ref().map(|o| o.is_some())));
                }
                if !stream_accept && pristine_v1 {
                    return Err(format!(
                        "[sig:c08-valid-rejected-stream] the streaming validator did not accept a valid object for its own hash: {:?}",
                        r_stream.as_ref().map(|o| o.is_some())
                    ));
                }
            } else if seek_accept || stream_accept {
                return Err("[sig:c08-other-hash-accepted] a valid object was accepted for a hash other than its own".into());
            }
        }
    }
    Ok(Verdicts { seek_accept, stream_accept, parsed_chunks: walk.map(|w| w.0.len()).unwrap_or(0) })
}

fn returned_info_matches(cas: &CasObject, s: &rx::RefXorb, claimed: &H, who: &str) -> Result<(), String> {
    let ch: Vec<H> = cas.info.chunk_hashes.iter().map(|h| (*h).into()).collect();
    let want: Vec<H> = s.leaves().iter().map(|l| l.0).collect();
    let phys: Vec<u32> = s.chunks.iter().map(|c| c.end as u32).collect();
    let fh: H = cas.info.cashash.into();
    if ch != want || cas.info.chunk_boundary_offsets != phys || cas.info.num_chunks as usize != s.chunks.len() || fh != *claimed {
        return Err(format!("[sig:c08-returned-info] {who} returned metadata that does not describe the data"));
    }
    Ok(())
}

fn mut_oracle(c: &MutCase, info: &mut Case) -> Result<(), String> {
    journal(&serde_json::to_string(c).unwrap_or_default());
    let b = build(&c.spec)?;
    let rxo = rx::parse(&b.bytes).map_err(|e| format!("[sig:c08-ref-parse] reference decoder rejects a freshly serialized object: {e}"))?;
    let orig_records: Vec<(Vec<u8>, Vec<u8>)> = rxo.chunks.iter().map(|ch| (b.bytes[ch.start..ch.end].to_vec(), ch.data.clone())).collect();
    let mut records = orig_records.clone();
    let mut structural = false;
    for m in &c.muts {
        if let Mutation::Records { kind, a, b } = m {
            if records.is_empty() {
                continue;
            }
            let i = idx(*a, records.len());
            match kind % 3 {
                0 => {
                    let j = idx(*b, records.len() + 1);
                    let r = records[i].clone();
                    records.insert(j, r);
                },
                1 => {
                    records.remove(i);
                },
                _ => {
                    let j = idx(*b, records.len());
                    records.swap(i, j);
                },
            }
            structural = true;
        }
    }
    // stale footer = the original object's footer fields
    let stale = {
        let mut acc = 0u32;
        let unp: Vec<u32> = orig_records
            .iter()
            .map(|(_, d)| {
                acc += d.len() as u32;
                acc
            })
            .collect();
        let mut p = 0u32;
        let phys: Vec<u32> = orig_records
            .iter()
            .map(|(r, _)| {
                p += r.len() as u32;
                p
            })
            .collect();
        (b.hash, b.hashes.clone(), phys, unp)
    };
    let use_stale = structural && !c.rebuild_footer && c.footer != 2;
    let mut r = render(&records, c.footer, if use_stale { Some(&stale) } else { None });
    let mut byte_mutated = false;
    for m in &c.muts {
        match m {
            Mutation::Records { .. } => {},
            Mutation::Flip { region, pos, xor } => {
                if r.regions.is_empty() {
                    continue;
                }
                let (_, s, e) = &r.regions[idx(*region, r.regions.len())];
                if e > s && *e <= r.bytes.len() {
                    let at = s + idx(*pos, e - s);
                    r.bytes[at] ^= xor;
                    byte_mutated = true;
                }
            },
            Mutation::Truncate { at } => {
                let n = idx(*at, r.bytes.len() + 1);
                if n < r.bytes.len() {
                    r.bytes.truncate(n);
                    byte_mutated = true;
                }
            },
            Mutation::Field32 { which, how, val } => {
                if r.fields32.is_empty() {
                    continue;
                }
                let off = r.fields32[*which as usize % r.fields32.len()];
                if off + 4 <= r.bytes.len() {
                    let cur = u32::from_le_bytes(r.bytes[off..off + 4].try_into().unwrap());
                    let nv = derive32(cur, *how, *val);
                    r.bytes[off..off + 4].copy_from_slice(&nv.to_le_bytes());
                    byte_mutated |= nv != cur;
                }
            },
            Mutation::Len24 { chunk, which, how, val } => {
                if r.headers.is_empty() {
                    continue;
                }
                let h = r.headers[idx(*chunk, r.headers.len())];
                let off = h + if which % 2 == 0 { 1 } else { 5 };
                if off + 3 <= r.bytes.len() {
                    let cur = rx::u24(&r.bytes[off..off + 3]) as u32;
                    let nv = derive32(cur, *how, *val) & 0xff_ffff;
                    r.bytes[off..off + 3].copy_from_slice(&nv.to_le_bytes()[..3]);
                    byte_mutated |= nv != cur;
                }
            },
            Mutation::Hash { which, seed } => {
                if r.hashes.is_empty() {
                    continue;
                }
                let off = r.hashes[idx(*which, r.hashes.len())];
                if off + 32 <= r.bytes.len() {
                    let mut h = [0u8; 32];
                    Sm64(*seed).fill(&mut h);
                    r.bytes[off..off + 32].copy_from_slice(&h);
                    byte_mutated = true;
                }
            },
            Mutation::Append { seed, len } => {
                let extra = Sm64(*seed).bytes(*len as usize);
                byte_mutated |= !extra.is_empty();
                r.bytes.extend_from_slice(&extra);
            },
            Mutation::Scheme { chunk, val } => {
                if r.headers.is_empty() {
                    continue;
                }
                let h = r.headers[idx(*chunk, r.headers.len())];
                if h + 5 <= r.bytes.len() {
                    byte_mutated |= r.bytes[h + 4] != *val;
                    r.bytes[h + 4] = *val;
                }
            },
        }
    }
    let mutated = structural || byte_mutated;
    // claimed hash
    let walk = rx::walk(&r.bytes);
    let claimed: H = match c.claimed % 4 {
        0 => b.hash,
        1 => match &walk {
            Ok((chunks, _)) if !chunks.is_empty() => {
                let leaves: Vec<(H, u64)> = chunks.iter().map(|ch| (rm::chunk_hash(&ch.data), ch.data.len() as u64)).collect();
                rm::xorb_hash(&leaves)
            },
            _ => b.hash,
        },
        2 => match r.hashes.first() {
            Some(off) if off + 32 <= r.bytes.len() => r.bytes[*off..off + 32].try_into().unwrap(),
            _ => b.hash,
        },
        _ => {
            let mut h = [0u8; 32];
            Sm64(c.claimed_seed).fill(&mut h);
            h
        },
    };
    // "pristine": produced by the serializer's layout without byte damage; those must be accepted
    let pristine = !byte_mutated && !use_stale;
    let v = check_bytes(&r.bytes, &claimed, &c.read_sizes, pristine)?;
    // the unmutated V1 object is exactly what CasObject::serialize wrote
    if !mutated && c.footer == 0 && r.bytes != b.bytes {
        return Err("[sig:c08-ref-writer] reference footer writer differs from the serializer's bytes".into());
    }
    info.nontrivial_if((mutated && v.parsed_chunks >= 1) || v.seek_accept || v.stream_accept);
    info.label(format!("footer={}", ["v1", "v0", "none"][c.footer as usize % 3]));
    if !mutated {
        info.label("unmutated");
    }
    if use_stale {
        info.label("stale-footer");
    }
    if v.seek_accept {
        info.label("accepted-by-seekable");
    }
    if v.stream_accept {
        info.label("accepted-by-streaming");
    }
    if v.seek_accept != v.stream_accept && c.footer == 0 {
        info.label("validators-disagree-on-v1-input");
    }
    if mutated && (v.seek_accept || v.stream_accept) {
        info.label("mutated-and-accepted");
    }
    for m in &c.muts {
        info.label(format!(
            "mut={}",
            match m {
                Mutation::Records { .. } => "records",
                Mutation::Flip { .. } => "flip",
                Mutation::Truncate { .. } => "truncate",
                Mutation::Field32 { .. } => "field32",
                Mutation::Len24 { .. } => "len24",
                Mutation::Hash { .. } => "hash",
                Mutation::Append { .. } => "append",
                Mutation::Scheme { .. } => "scheme",
            }
        ));
    }
    info.note = Some(json!({"bytes": r.bytes.len(), "parsed_chunks": v.parsed_chunks, "seek": v.seek_accept, "stream": v.stream_accept}));
    Ok(())
}

fn rand_oracle(c: &RandCase, info: &mut Case) -> Result<(), String> {
    journal(&serde_json::to_string(c).unwrap_or_default());
    let mut r = Sm64(c.seed);
    let mut bytes = r.bytes(c.len as usize);
    match c.shape % 4 {
        1 => {
            bytes.extend_from_slice(rx::IDENT);
            bytes.push((r.next() % 3) as u8);
            let k = (r.next() % 200) as usize;
            bytes.extend_from_slice(&r.bytes(k));
        },
        2 => {
            // chunk-like header in front
            let clen = (r.next() % 64) as u32;
            let mut h = vec![0u8];
            h.extend_from_slice(&clen.to_le_bytes()[..3]);
            h.push((r.next() % 4) as u8);
            h.extend_from_slice(&((r.next() % 300) as u32).to_le_bytes()[..3]);
            h.extend_from_slice(&bytes);
            bytes = h;
        },
        3 => {
            let start = bytes.len();
            bytes.extend_from_slice(rx::IDENT);
            bytes.push(1);
            let k = (r.next() % 120) as usize;
            bytes.extend_from_slice(&r.bytes(k));
            let l = (bytes.len() - start) as u32;
            bytes.extend_from_slice(&l.to_le_bytes());
        },
        _ => {},
    }
    let mut claimed = [0u8; 32];
    if c.claimed_seed % 3 != 0 {
        Sm64(c.claimed_seed).fill(&mut claimed);
    }
    let v = check_bytes(&bytes, &claimed, &[7, 1, 300], false)?;
    info.nontrivial_if(v.parsed_chunks >= 1 || v.seek_accept || v.stream_accept);
    info.label(format!("random-shape={}", c.shape % 4));
    if v.stream_accept || v.seek_accept {
        info.label("random-accepted");
    }
    Ok(())
}

pub fn run(ctx: &Ctx) {
    let n_mut = ctx.tier.pick(48_000, 300_000);
    let n_rand = ctx.tier.pick(16_000, 100_000);
    if ctx.is_worker || ctx.replay.is_some() {
        ctx.explore("mutants", n_mut, 1, mut_strategy, mut_oracle);
        ctx.explore("random", n_rand, 1, rand_strategy, rand_oracle);
    } else {
        let env = BTreeMap::new();
        ctx.explore_workers("mutants", n_mut, 16, &env, Duration::from_secs(ctx.tier.pick(600, 7200)));
        ctx.explore_workers("random", n_rand, 8, &env, Duration::from_secs(ctx.tier.pick(600, 7200)));
    }
}
