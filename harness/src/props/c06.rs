//! C06 Content hashes are stable pure functions and all code paths agree.

use std::io::{Cursor, Write};

use cas_object::{validate_cas_object_from_async_read, CasObject, CompressionScheme};
use deduplication::{Chunk, RawXorbData};
use merkledb::aggregate_hashes::{cas_node_hash, file_node_hash, with_salt};
use merkledb::prelude::MerkleDBHighLevelMethodsV1;
use merkledb::MerkleMemDB;
use merklehash::{compute_data_hash, DataHash, HashedWrite, MerkleHash};
use proptest::prelude::*;
use serde::{Deserialize, Serialize};
use serde_json::json;

use crate::engine::{idx, Case, Ctx, Sm64};
use crate::gen::bytes::{bytes_strategy, Bytes};
use crate::refs::merkle::{self as rm, H};
use crate::util::SlowReader;

pub const RULE: &str = "streams: (aggregate) chunk lists of 1..3000 (hash,len) entries with engineered branching words, repeats (equal hash => equal length) and extreme lengths, checked against the independent Merkle reference through cas_node_hash, file_node_hash, the validators' add_file+finalize path, range hash, salting, plus change/swap/insert/drop metamorphic relations; (bytes) byte strings through compute_data_hash and HashedWrite under generated write partitions; (text) hex / base64 / serde-hex round trips and rejection of malformed text; (xorb) chunk data lists through RawXorbData::from_chunks, CasObject::serialize and both validators; (golden) committed vectors. non-trivial = aggregate list with >= 10 entries and >= 2 tree levels or a repeated entry, a byte string written in >= 3 writes, a mixed-case hex string, or a xorb with >= 2 chunks; distinct by fingerprint of the generated case";

pub const ASSUMPTIONS: &[&str] = &[
    "equal chunk hash implies equal length in generated lists (a hash identifies data)",
    "chunk hashes are never the all-zero value (would need a BLAKE3 preimage)",
    "the blake3 crate is correct; keys are copied into the reference as literals",
];

fn mh(h: &H) -> MerkleHash {
    MerkleHash::from(h)
}
fn hb(h: &MerkleHash) -> H {
    (*h).into()
}

#[derive(Clone, Debug, Serialize, Deserialize)]
pub struct Entry {
    /// seed of the 32 hash bytes
    pub seed: u64,
    /// how the last word (branching decision) is forced: 0 = leave, 1 = multiple of 4, 2 = not a multiple of 4
    pub branch: u8,
    pub len_kind: u8,
    pub len: u32,
    /// if Some(k): repeat of the k-th earlier entry (mapped monotonically)
    pub repeat_of: Option<u16>,
}

#[derive(Clone, Debug, Serialize, Deserialize)]
pub struct AggCase {
    pub entries: Vec<Entry>,
    pub salt_seed: u64,
    pub mutate_at: u16,
    pub mutate_at2: u16,
}

fn entry_strategy() -> impl Strategy<Value = Entry> {
    (any::<u64>(), prop_oneof![3 => Just(0u8), 1 => Just(1u8), 1 => Just(2u8)], 0u8..8, any::<u32>(), proptest::option::weighted(0.12, any::<u16>()))
        .prop_map(|(seed, branch, len_kind, len, repeat_of)| Entry { seed, branch, len_kind, len, repeat_of })
}

fn agg_strategy() -> impl Strategy<Value = AggCase> {
    let n = prop_oneof![4 => 1usize..12, 4 => 1usize..80, 2 => 80usize..600, 1 => 600usize..3000];
    (n.prop_flat_map(|n| proptest::collection::vec(entry_strategy(), n)), any::<u64>(), any::<u16>(), any::<u16>())
        .prop_map(|(entries, salt_seed, mutate_at, mutate_at2)| AggCase { entries, salt_seed, mutate_at, mutate_at2 })
}

fn materialize(entries: &[Entry]) -> Vec<(H, u64)> {
    let mut out: Vec<(H, u64)> = Vec::with_capacity(entries.len());
    for e in entries {
        if let Some(r) = e.repeat_of {
            if !out.is_empty() {
                let k = idx(r, out.len());
                out.push(out[k]);
                continue;
            }
        }
        let mut h = [0u8; 32];
        Sm64(e.seed).fill(&mut h);
        let mut w = u64::from_le_bytes(h[24..32].try_into().unwrap());
        match e.branch {
            1 => w &= !3,
            2 => w |= 1,
            _ => {},
        }
        h[24..32].copy_from_slice(&w.to_le_bytes());
        if h == [0u8; 32] {
            h[0] = 1;
        }
        let len: u64 = match e.len_kind {
            0 => 0,
            1 => 1,
            2 => (1 << 24) - 1,
            3 => u32::MAX as u64,
            4 => 65536,
            _ => (e.len % 200_000) as u64,
        };
        // a fresh hash that happens to equal an earlier one keeps that one's length
        if let Some(prev) = out.iter().find(|x| x.0 == h) {
            out.push(*prev);
        } else {
            out.push((h, len));
        }
    }
    out
}

fn real_list(l: &[(H, u64)]) -> Vec<(MerkleHash, usize)> {
    l.iter().map(|(h, n)| (mh(h), *n as usize)).collect()
}

fn validator_path(l: &[(H, u64)]) -> MerkleHash {
    let chunks: Vec<merkledb::Chunk> = l.iter().map(|(h, n)| merkledb::Chunk { hash: mh(h), length: *n as usize }).collect();
    let mut db = MerkleMemDB::default();
    let mut staging = db.start_insertion_staging();
    db.add_file(&mut staging, &chunks);
    let ret = db.finalize(staging);
    *ret.hash()
}

/// the aggregate oracle without the bookkeeping (used by the libFuzzer target merkle_tree)
pub fn check_agg(c: &AggCase) -> Result<(), String> {
    agg_oracle(c, &mut Case { nontrivial: false, labels: Vec::new(), note: None })
}

fn agg_oracle(c: &AggCase, info: &mut Case) -> Result<(), String> {
    let list = materialize(&c.entries);
    let mut salt = [0u8; 32];
    Sm64(c.salt_seed).fill(&mut salt);
    let real = real_list(&list);
    let want_x = rm::xorb_hash(&list);
    let got_x = cas_node_hash(&real);
    if hb(&got_x) != want_x {
        return Err(format!("[sig:c06-cas-node-hash] cas_node_hash differs from the reference construction for a list of {} entries", list.len()));
    }
    let want_f = rm::file_hash(&list, &salt);
    let got_f = file_node_hash(&real, &salt).map_err(|e| format!("[sig:c06-file-hash-err] file_node_hash failed: {e}"))?;
    if hb(&got_f) != want_f {
        return Err(format!("[sig:c06-file-node-hash] file_node_hash differs from the reference construction for a list of {} entries", list.len()));
    }
    let zero_salt_f = file_node_hash(&real, &[0u8; 32]).map_err(|e| format!("[sig:c06-file-hash-err] {e}"))?;
    if salt != [0u8; 32] && zero_salt_f == got_f {
        return Err("[sig:c06-salt-ignored] two different salts give the same file hash".into());
    }
    let via_validator = validator_path(&list);
    if hb(&via_validator) != want_x {
        return Err(format!("[sig:c06-validator-path] the validators' add_file+finalize hash differs from the reference for {} entries", list.len()));
    }
    if hb(&with_salt(&got_x, &salt).map_err(|e| format!("[sig:c06-with-salt-err] {e}"))?) != rm::with_salt(&want_x, &salt) {
        return Err("[sig:c06-with-salt] with_salt differs from keyed-BLAKE3(salt, hash)".into());
    }
    // range hash over a sub-range
    let a = idx(c.mutate_at, list.len());
    let b = a + 1 + idx(c.mutate_at2, list.len() - a);
    let hs: Vec<MerkleHash> = list[a..b].iter().map(|x| mh(&x.0)).collect();
    let hs_ref: Vec<H> = list[a..b].iter().map(|x| x.0).collect();
    if hb(&mdb_shard::chunk_verification::range_hash_from_chunks(&hs)) != rm::range_hash(&hs_ref) {
        return Err("[sig:c06-range-hash] range_hash_from_chunks differs from keyed-BLAKE3(verification key, concatenated hashes)".into());
    }
    // hmac of an entry under the salt as key, and under the extreme keys
    if hb(&mh(&list[a].0).hmac(mh(&salt))) != rm::hmac(&list[a].0, &salt) {
        return Err("[sig:c06-hmac] DataHash::hmac differs from keyed-BLAKE3(key, hash bytes)".into());
    }
    for k in [[0u8; 32], [0xffu8; 32]] {
        if hb(&mh(&list[a].0).hmac(mh(&k))) != rm::hmac(&list[a].0, &k) {
            return Err(format!("[sig:c06-hmac] DataHash::hmac differs from keyed-BLAKE3(key, hash bytes) under the key {:02x}..", k[0]));
        }
        if hb(&with_salt(&got_x, &k).map_err(|e| format!("[sig:c06-with-salt-err] {e}"))?) != rm::with_salt(&want_x, &k) {
            return Err(format!("[sig:c06-with-salt] with_salt differs from keyed-BLAKE3(salt, hash) under the salt {:02x}..", k[0]));
        }
    }
    if hb(&zero_salt_f) != rm::file_hash(&list, &[0u8; 32]) {
        return Err("[sig:c06-file-node-hash] file_node_hash under the all-zero salt differs from the reference construction".into());
    }

    // metamorphic: change / swap / insert / drop => different aggregate (skip mutations that
    // leave the sequence equal)
    let fresh = |tag: u64| -> (H, u64) {
        let mut h = [0u8; 32];
        Sm64(c.salt_seed ^ tag ^ 0xA5A5).fill(&mut h);
        (h, 77)
    };
    let mut variants: Vec<(&str, Vec<(H, u64)>)> = Vec::new();
    {
        let mut v = list.clone();
        let f = fresh(1);
        if !list.iter().any(|x| x.0 == f.0) {
            v[a] = f;
            variants.push(("change", v));
        }
    }
    {
        let mut v = list.clone();
        let j = idx(c.mutate_at2, list.len());
        v.swap(a, j);
        variants.push(("swap", v));
    }
    {
        let mut v = list.clone();
        let f = fresh(2);
        if !list.iter().any(|x| x.0 == f.0) {
            v.insert(a, f);
            variants.push(("insert", v));
        }
    }
    {
        let mut v = list.clone();
        v.remove(a);
        variants.push(("drop", v));
    }
    {
        // length change of a non-repeated entry
        let mut v = list.clone();
        // (a single leaf is its own root: its length is not part of the hash by construction)
        if list.len() >= 2 && list.iter().filter(|x| x.0 == list[a].0).count() == 1 {
            v[a].1 = v[a].1.wrapping_add(1) & 0xffff_ffff;
            variants.push(("length", v));
        }
    }
    for (name, v) in variants {
        if v == list || v.is_empty() {
            continue;
        }
        let r = cas_node_hash(&real_list(&v));
        if hb(&r) != rm::xorb_hash(&v) {
            return Err(format!("[sig:c06-cas-node-hash] cas_node_hash differs from the reference on the '{name}' variant"));
        }
        if r == got_x {
            return Err(format!("[sig:c06-metamorphic-{name}] aggregate hash unchanged after a '{name}' mutation at {a} of {} entries", list.len()));
        }
        let rf = file_node_hash(&real_list(&v), &salt).map_err(|e| format!("[sig:c06-file-hash-err] {e}"))?;
        if rf == got_f {
            return Err(format!("[sig:c06-metamorphic-{name}] file hash unchanged after a '{name}' mutation"));
        }
    }
    let depth = rm::depth(&list);
    let has_repeat = {
        let mut s = std::collections::BTreeSet::new();
        list.iter().any(|x| !s.insert(x.0))
    };
    info.nontrivial_if((list.len() >= 10 && depth >= 2) || has_repeat);
    info.label(format!("depth={}", depth.min(6)));
    if has_repeat {
        info.label("has-repeat");
    }
    if list.len() == 1 {
        info.label("single-entry");
    }
    info.note = Some(json!({"entries": list.len(), "depth": depth, "repeat": has_repeat}));
    Ok(())
}

// ---------------------------------------------------------------------------------------------

#[derive(Clone, Debug, Serialize, Deserialize)]
pub struct BytesCase {
    pub data: Bytes,
    pub writes: Vec<u16>,
}

fn bytes_case_strategy() -> impl Strategy<Value = BytesCase> {
    (prop_oneof![3 => bytes_strategy(0, 300), 2 => bytes_strategy(0, 70_000), 1 => bytes_strategy(0, 300_000)], proptest::collection::vec(any::<u16>(), 0..20))
        .prop_map(|(data, writes)| BytesCase { data, writes })
}

fn bytes_oracle(c: &BytesCase, info: &mut Case) -> Result<(), String> {
    let data = c.data.expand();
    let want = rm::chunk_hash(&data);
    if hb(&compute_data_hash(&data)) != want {
        return Err(format!("[sig:c06-data-hash] compute_data_hash differs from keyed-BLAKE3(data key) on {} bytes", data.len()));
    }
    // the interior-node primitive is a different keyed hash of the same bytes
    let want_internal: H = *blake3::keyed_hash(&rm::INTERNAL_KEY, &data).as_bytes();
    if hb(&merklehash::compute_internal_node_hash(&data)) != want_internal {
        return Err(format!("[sig:c06-internal-node-hash] compute_internal_node_hash differs from keyed-BLAKE3(internal key) on {} bytes", data.len()));
    }
    if !data.is_empty() && want_internal == want {
        return Err("[sig:c06-internal-node-hash] data hash and internal-node hash of the same bytes coincide".into());
    }
    let mut sink = Vec::new();
    let mut hw = HashedWrite::new(&mut sink);
    let mut pos = 0;
    let mut n_writes = 0;
    for w in &c.writes {
        let remaining = data.len() - pos;
        let n = match w % 4 {
            0 => 0,
            1 => 1.min(remaining),
            _ => idx(*w, remaining + 1),
        };
        // Write::write may be partial in general; HashedWrite over a Vec is not, but honour the contract
        let k = hw.write(&data[pos..pos + n]).map_err(|e| format!("[sig:c06-hashedwrite-io] {e}"))?;
        pos += k;
        n_writes += 1;
    }
    hw.write_all(&data[pos..]).map_err(|e| format!("[sig:c06-hashedwrite-io] {e}"))?;
    hw.flush().ok();
    let got = hw.hash();
    // hash() must be repeatable
    if hw.hash() != got {
        return Err("[sig:c06-hashedwrite-unstable] HashedWrite::hash() changes between calls".into());
    }
    drop(hw);
    if hb(&got) != want {
        return Err(format!("[sig:c06-hashedwrite] streaming hash under {} writes differs from the one-shot hash ({} bytes)", n_writes + 1, data.len()));
    }
    if sink != data {
        return Err("[sig:c06-hashedwrite-passthrough] HashedWrite did not pass the bytes through unchanged".into());
    }
    info.nontrivial_if(n_writes >= 3 && data.len() >= 2);
    info.label(format!("class={}", c.data.class()));
    Ok(())
}

// ---------------------------------------------------------------------------------------------

#[derive(Clone, Debug, Serialize, Deserialize)]
pub struct TextCase {
    pub seed: u64,
    pub pattern: u8,
    pub case_mask: u64,
    pub damage: Option<(u8, u8, u8)>,
}

fn text_strategy() -> impl Strategy<Value = TextCase> {
    (any::<u64>(), 0u8..6, any::<u64>(), proptest::option::weighted(0.4, (0u8..64, any::<u8>(), 0u8..4)))
        .prop_map(|(seed, pattern, case_mask, damage)| TextCase { seed, pattern, case_mask, damage })
}

fn text_oracle(c: &TextCase, info: &mut Case) -> Result<(), String> {
    let mut h = [0u8; 32];
    match c.pattern {
        0 => {},
        1 => h = [0xff; 32],
        2 => h[0] = 1,
        3 => h[31] = 0x80,
        _ => Sm64(c.seed).fill(&mut h),
    }
    let dh = mh(&h);
    let hx = dh.hex();
    if hx != rm::hex(&h) {
        return Err(format!("[sig:c06-hex] hex() = {hx} differs from the reference text form {}", rm::hex(&h)));
    }
    if format!("{dh}") != hx || format!("{dh:x}") != hx || format!("{dh:?}") != hx {
        return Err("[sig:c06-hex-display] Display/LowerHex/Debug differ from hex()".into());
    }
    match DataHash::from_hex(&hx) {
        Ok(back) if back == dh => {},
        other => return Err(format!("[sig:c06-hex-roundtrip] from_hex(hex(h)) = {other:?} for h = {hx}")),
    }
    // mixed case input
    let mixed: String =
        hx.chars().enumerate().map(|(i, ch)| if (c.case_mask >> (i % 64)) & 1 == 1 { ch.to_ascii_uppercase() } else { ch }).collect();
    match DataHash::from_hex(&mixed) {
        Ok(back) if back.hex() == mixed.to_ascii_lowercase() => {},
        other => return Err(format!("[sig:c06-hex-case] hex(from_hex(s)) != lower(s) for s = {mixed}: {other:?}")),
    }
    // base64
    let b64 = dh.base64();
    match DataHash::from_base64(&b64) {
        Ok(back) if back == dh => {},
        other => return Err(format!("[sig:c06-base64-roundtrip] from_base64(base64(h)) = {other:?} for {hx}")),
    }
    // serde hex module
    #[derive(Serialize, Deserialize)]
    struct W(#[serde(with = "merklehash::data_hash::hex::serde")] DataHash);
    let js = serde_json::to_string(&W(dh)).map_err(|e| format!("[sig:c06-serde] {e}"))?;
    if js != format!("\"{hx}\"") {
        return Err(format!("[sig:c06-serde] serde hex form {js} != hex()"));
    }
    let back: W = serde_json::from_str(&js).map_err(|e| format!("[sig:c06-serde] {e}"))?;
    if back.0 != dh {
        return Err("[sig:c06-serde] serde hex round trip changed the hash".into());
    }
    // bytes round trips
    if DataHash::from_slice(dh.as_bytes()).map_err(|_| "[sig:c06-from-slice] from_slice rejected 32 bytes".to_string())? != dh {
        return Err("[sig:c06-from-slice] from_slice(as_bytes(h)) != h".into());
    }
    let arr: [u8; 32] = dh.into();
    if arr != h {
        return Err("[sig:c06-bytes] [u8;32] -> DataHash -> [u8;32] changed the bytes".into());
    }
    // malformed text must be rejected, and must agree with the reference parser
    if let Some((pos, byte, kind)) = c.damage {
        let mut s = mixed.clone().into_bytes();
        match kind {
            0 => s[pos as usize % 64] = byte,
            1 => {
                s.truncate(pos as usize % 64);
            },
            2 => s.push(if byte.is_ascii() { byte } else { b'0' }),
            _ => s.insert(pos as usize % 64, b'+'),
        }
        if let Ok(st) = String::from_utf8(s) {
            let want = rm::from_hex(&st);
            let got = DataHash::from_hex(&st).ok().map(|x| hb(&x));
            if want != got {
                return Err(format!("[sig:c06-hex-parse] from_hex({st:?}) = {got:?}, reference parser says {want:?}"));
            }
            info.label(if want.is_some() { "damaged-text-still-valid" } else { "damaged-text-rejected" });
        }
    }
    info.nontrivial_if(mixed != hx);
    Ok(())
}

// ---------------------------------------------------------------------------------------------

#[derive(Clone, Debug, Serialize, Deserialize)]
pub struct XorbCase {
    pub chunks: Vec<Bytes>,
    pub dup: Option<(u16, u16)>,
    pub scheme: u8,
    pub read_sizes: Vec<u16>,
    pub wrong_seed: u64,
}

fn xorb_strategy() -> impl Strategy<Value = XorbCase> {
    let n = prop_oneof![3 => 1usize..6, 3 => 1usize..30, 1 => 30usize..200];
    (
        n.prop_flat_map(|n| proptest::collection::vec(prop_oneof![4 => bytes_strategy(1, 600), 1 => bytes_strategy(1, 20_000)], n)),
        proptest::option::weighted(0.3, (any::<u16>(), any::<u16>())),
        0u8..4,
        proptest::collection::vec(any::<u16>(), 1..6),
        any::<u64>(),
    )
        .prop_map(|(chunks, dup, scheme, read_sizes, wrong_seed)| XorbCase { chunks, dup, scheme, read_sizes, wrong_seed })
}

pub fn scheme_of(k: u8) -> Option<CompressionScheme> {
    match k % 4 {
        0 => Some(CompressionScheme::None),
        1 => Some(CompressionScheme::LZ4),
        2 => Some(CompressionScheme::ByteGrouping4LZ4),
        _ => None,
    }
}

fn xorb_oracle(c: &XorbCase, info: &mut Case) -> Result<(), String> {
    let mut datas: Vec<Vec<u8>> = c.chunks.iter().map(|b| b.expand()).collect();
    if let Some((from, to)) = c.dup {
        let f = idx(from, datas.len());
        let t = idx(to, datas.len() + 1);
        let d = datas[f].clone();
        datas.insert(t, d);
    }
    let chunks: Vec<Chunk> = datas.iter().map(|d| Chunk { hash: compute_data_hash(d), data: d.clone().into() }).collect();
    let leaves: Vec<(H, u64)> = datas.iter().map(|d| (rm::chunk_hash(d), d.len() as u64)).collect();
    let want = rm::xorb_hash(&leaves);
    let raw = RawXorbData::from_chunks(&chunks);
    if hb(&raw.hash()) != want {
        return Err(format!("[sig:c06-uploader-xorb-hash] RawXorbData::from_chunks hash differs from the reference for {} chunks", chunks.len()));
    }
    let mut buf = Cursor::new(Vec::new());
    let all = raw.to_vec();
    let cb = raw.cas_info.chunks_and_boundaries();
    CasObject::serialize(&mut buf, &raw.hash(), &all, &cb, scheme_of(c.scheme)).map_err(|e| format!("[sig:c06-serialize-err] {e}"))?;
    let bytes = buf.into_inner();
    let mut wrong = [0u8; 32];
    Sm64(c.wrong_seed).fill(&mut wrong);
    for (name, hash, expect) in [("own", raw.hash(), true), ("other", mh(&wrong), false)] {
        let r = CasObject::validate_cas_object(&mut Cursor::new(&bytes), &hash).map_err(|e| format!("[sig:c06-validator-err] validate_cas_object: {e}"))?;
        if r.is_some() != expect {
            return Err(format!("[sig:c06-seekable-validator] validate_cas_object({name} hash) accepted={} expected={expect}", r.is_some()));
        }
        let sizes: Vec<usize> = c.read_sizes.iter().map(|s| 1 + (*s as usize % 5000)).collect();
        let mut rd = SlowReader::new(&bytes, sizes);
        let r2 = futures::executor::block_on(validate_cas_object_from_async_read(&mut rd, &hash))
            .map_err(|e| format!("[sig:c06-validator-err] validate_cas_object_from_async_read: {e}"))?;
        if r2.is_some() != expect {
            return Err(format!("[sig:c06-stream-validator] validate_cas_object_from_async_read({name} hash) accepted={} expected={expect}", r2.is_some()));
        }
        if let (Some(a), Some((b, _))) = (&r, &r2) {
            if a.info.cashash != b.info.cashash || hb(&a.info.cashash) != want {
                return Err("[sig:c06-validator-hash] validators report a different xorb hash than the reference".into());
            }
        }
    }
    info.nontrivial_if(chunks.len() >= 2);
    if c.dup.is_some() {
        info.label("duplicate-chunk-in-xorb");
    }
    info.label(format!("scheme={}", ["none", "lz4", "bg4", "auto"][c.scheme as usize % 4]));
    Ok(())
}

// ---------------------------------------------------------------------------------------------
// golden vectors: generated once from the pinned tree (and equal to the reference); they pin the
// published construction against a simultaneous drift of implementation and reference inputs.

fn golden_list(n: usize, seed: u64) -> Vec<(H, u64)> {
    let mut r = Sm64(seed);
    (0..n)
        .map(|_| {
            let mut h = [0u8; 32];
            r.fill(&mut h);
            (h, 1 + r.below(100_000))
        })
        .collect()
}

pub const GOLDEN: &[(&str, u64, usize, &str)] = &[
    ("xorb", 1, 1, "910a2dec89025cc1beeb8da1658eec67f893a2eefb32555e71c18690ee42c90b"),
    ("xorb", 2, 7, "31304f320e177ad8b181821a7dd677bf71bb041b4a6f3cfede1b59c5ee5fb06a"),
    ("xorb", 3, 100, "059c856f82b902235bf41d4a91c3367f2d6c255518ec84a278485f878fac135b"),
    ("xorb", 4, 2500, "f3802e61648af8018abeb0fae68ff32d7b1028168b542f104406c0b2a0db05e5"),
    ("file", 5, 1, "e5d95f85a11d3f47267724960c046f9fb4a38fef46b27f384b29ace0e2957ca1"),
    ("file", 6, 33, "f4976bc9fb259d49351dbafd5ac42edb199eea5f597147135caa4c8807c52feb"),
    ("file", 7, 1000, "f56a3c1da940633aae76b52dbc4c125b56857717bdfdb0afb39118d0a091cedd"),
    ("data", 8, 0, "e0f2cf784e7e5f10c34f84af150e9a5ff9664216debad915364d741049870f67"),
    ("data", 9, 1000, "5b21883002a0e9b654050ceaaa9decc20fe922cf579c71d873cda148d355debf"),
    ("range", 10, 5, "799be86b2da7760f43a9ef0b6e5c2237725818e9552cf85597f9f10556fae093"),
];

fn golden_value(kind: &str, seed: u64, n: usize, real: bool) -> String {
    let salt = [7u8; 32];
    match kind {
        "xorb" => {
            let l = golden_list(n, seed);
            if real {
                cas_node_hash(&real_list(&l)).hex()
            } else {
                rm::hex(&rm::xorb_hash(&l))
            }
        },
        "file" => {
            let l = golden_list(n, seed);
            if real {
                file_node_hash(&real_list(&l), &salt).map(|h| h.hex()).unwrap_or_default()
            } else {
                rm::hex(&rm::file_hash(&l, &salt))
            }
        },
        "data" => {
            let d = Sm64(seed).bytes(n);
            if real {
                compute_data_hash(&d).hex()
            } else {
                rm::hex(&rm::chunk_hash(&d))
            }
        },
        _ => {
            let l = golden_list(n, seed);
            if real {
                mdb_shard::chunk_verification::range_hash_from_chunks(&l.iter().map(|x| mh(&x.0)).collect::<Vec<_>>()).hex()
            } else {
                rm::hex(&rm::range_hash(&l.iter().map(|x| x.0).collect::<Vec<_>>()))
            }
        },
    }
}

pub fn print_golden() {
    for (kind, seed, n, _) in GOLDEN {
        println!("{kind} {seed} {n} real={} ref={}", golden_value(kind, *seed, *n, true), golden_value(kind, *seed, *n, false));
    }
}

pub fn run(ctx: &Ctx) {
    if std::env::var_os("XV_PRINT_GOLDEN").is_some() {
        print_golden();
    }
    ctx.enumerate("golden", (0..GOLDEN.len()).collect::<Vec<usize>>(), |i, info| {
        let (kind, seed, n, want) = GOLDEN[*i];
        let real = golden_value(kind, seed, n, true);
        let rf = golden_value(kind, seed, n, false);
        if real != want {
            return Err(format!("[sig:c06-golden] {kind} vector (seed {seed}, n {n}): implementation gives {real}, committed golden value is {want}"));
        }
        if rf != want {
            return Err(format!("[sig:c06-golden-ref] reference disagrees with committed golden value for {kind}/{seed}/{n}"));
        }
        info.nontrivial_if(n >= 5);
        Ok(())
    });
    ctx.explore("aggregate", ctx.tier.pick(24_000, 150_000), 16, agg_strategy, agg_oracle);
    ctx.explore("bytes", ctx.tier.pick(16_000, 100_000), 16, bytes_case_strategy, bytes_oracle);
    ctx.explore("text", ctx.tier.pick(80_000, 400_000), 16, text_strategy, text_oracle);
    ctx.explore("xorb", ctx.tier.pick(6_000, 40_000), 16, xorb_strategy, xorb_oracle);
}
