//! Shared engine: seeded proptest runners, case classification, evidence, replay files,
//! known-findings handling, child-process workers.
//!
//! Everything random comes from proptest strategies seeded from VERIF_SEED; tiers are
//! fixed work (case counts), never a time quota.

use std::collections::{BTreeMap, BTreeSet};
use std::fmt::Debug;
use std::io::Write as _;
use std::path::{Path, PathBuf};
use std::process::{Command, Stdio};
use std::sync::atomic::{AtomicBool, Ordering};
use std::sync::Mutex;
use std::time::{Duration, Instant};

use proptest::strategy::{Strategy, ValueTree};
use proptest::test_runner::{Config, RngSeed, TestCaseError, TestError, TestRunner};
use serde::de::DeserializeOwned;
use serde::{Deserialize, Serialize};
use serde_json::{json, Value};

pub const VERIF_ROOT: &str = "/verif";

#[derive(Clone, Copy, Debug, PartialEq, Eq)]
pub enum Tier {
    Quick,
    Thorough,
}

impl Tier {
    pub fn name(self) -> &'static str {
        match self {
            Tier::Quick => "quick",
            Tier::Thorough => "thorough",
        }
    }
    /// pick a work amount by tier
    pub fn pick<T>(self, quick: T, thorough: T) -> T {
        match self {
            Tier::Quick => quick,
            Tier::Thorough => thorough,
        }
    }
}

/// FNV-1a 64: stable fingerprint (no dependence on std's randomised hasher).
pub fn fnv64(bytes: &[u8]) -> u64 {
    let mut h: u64 = 0xcbf29ce484222325;
    for b in bytes {
        h ^= *b as u64;
        h = h.wrapping_mul(0x100000001b3);
    }
    h
}

/// splitmix64 – used only to *expand* generated recipes (seed → bytes); the seed itself is
/// always a proptest-generated value, so a case stays a pure function of the generated input.
#[derive(Clone)]
pub struct Sm64(pub u64);
impl Sm64 {
    pub fn next(&mut self) -> u64 {
        self.0 = self.0.wrapping_add(0x9E3779B97F4A7C15);
        let mut z = self.0;
        z = (z ^ (z >> 30)).wrapping_mul(0xBF58476D1CE4E5B9);
        z = (z ^ (z >> 27)).wrapping_mul(0x94D049BB133111EB);
        z ^ (z >> 31)
    }
    pub fn below(&mut self, n: u64) -> u64 {
        if n == 0 {
            0
        } else {
            self.next() % n
        }
    }
    pub fn fill(&mut self, out: &mut [u8]) {
        for c in out.chunks_mut(8) {
            let v = self.next().to_le_bytes();
            c.copy_from_slice(&v[..c.len()]);
        }
    }
    pub fn bytes(&mut self, n: usize) -> Vec<u8> {
        let mut v = vec![0u8; n];
        self.fill(&mut v);
        v
    }
}

pub fn mix_seed(seed: u64, id: &str, stream: &str, idx: u64) -> u64 {
    let mut s = Sm64(seed ^ fnv64(id.as_bytes()).rotate_left(17) ^ fnv64(stream.as_bytes()).rotate_left(41) ^ idx.wrapping_mul(0x9E37_79B9));
    s.next()
}

#[derive(Clone, Debug, Serialize, Deserialize)]
pub struct Failure {
    pub stream: String,
    pub message: String,
    pub signature: String,
    pub replay: String,
    pub known: bool,
}

/// Mergeable statistics of a run (or of one worker).
#[derive(Clone, Debug, Default, Serialize, Deserialize)]
pub struct Stats {
    pub evaluations: u64,
    pub nontrivial: BTreeSet<u64>,
    pub nontrivial_evals: u64,
    pub labels: BTreeMap<String, u64>,
    pub per_stream: BTreeMap<String, (u64, u64)>,
    pub samples: Vec<Value>,
    pub failures: Vec<Failure>,
    pub known_hits: BTreeMap<String, u64>,
    pub inconclusive: Vec<String>,
    pub replays_run: u64,
    pub exhaustive: bool,
    pub extra: BTreeMap<String, Value>,
}

impl Stats {
    pub fn merge(&mut self, o: Stats) {
        self.evaluations += o.evaluations;
        self.nontrivial.extend(o.nontrivial);
        self.nontrivial_evals += o.nontrivial_evals;
        for (k, v) in o.labels {
            *self.labels.entry(k).or_default() += v;
        }
        for (k, v) in o.per_stream {
            let e = self.per_stream.entry(k).or_default();
            e.0 += v.0;
            e.1 += v.1;
        }
        for s in o.samples {
            let stream = s.get("stream").and_then(|x| x.as_str()).unwrap_or("").to_string();
            let have = self.samples.iter().filter(|x| x.get("stream").and_then(|y| y.as_str()).unwrap_or("") == stream).count();
            if have < 3 && self.samples.len() < 24 {
                self.samples.push(s);
            }
        }
        self.failures.extend(o.failures);
        for (k, v) in o.known_hits {
            *self.known_hits.entry(k).or_default() += v;
        }
        self.inconclusive.extend(o.inconclusive);
        self.replays_run += o.replays_run;
        for (k, v) in o.extra {
            // numeric extras add up, anything else: last writer wins
            match (self.extra.get(&k).and_then(|x| x.as_u64()), v.as_u64()) {
                (Some(a), Some(b)) => {
                    self.extra.insert(k, json!(a + b));
                },
                _ => {
                    self.extra.insert(k, v);
                },
            }
        }
    }
}

/// Per-case classification handle handed to the oracle closure.
pub struct Case {
    pub nontrivial: bool,
    pub labels: Vec<String>,
    pub note: Option<Value>,
}

impl Case {
    pub fn label(&mut self, l: impl Into<String>) {
        self.labels.push(l.into());
    }
    pub fn nontrivial_if(&mut self, b: bool) {
        if b {
            self.nontrivial = true;
        }
    }
}

#[derive(Clone, Debug, Serialize, Deserialize)]
pub struct KnownFinding {
    pub property: String,
    pub signature: String,
    pub status: String, // "known" | "fixed"
    #[serde(default)]
    pub commit: Option<String>,
    pub what: String,
}

#[derive(Clone, Debug, Serialize, Deserialize)]
pub struct ReplayFile {
    pub property: String,
    pub stream: String,
    #[serde(default)]
    pub env: BTreeMap<String, String>,
    pub case: Value,
    #[serde(default)]
    pub message: String,
    #[serde(default)]
    pub signature: String,
}

pub struct Ctx {
    pub id: String,
    pub tier: Tier,
    pub seed: u64,
    pub level: &'static str,
    pub replay: Option<ReplayFile>,
    pub is_worker: bool,
    pub worker_spec: Option<Value>,
    pub known: Vec<KnownFinding>,
    pub stats: Mutex<Stats>,
    pub stop: AtomicBool,
    pub start: Instant,
    pub printed_known: Mutex<BTreeSet<String>>,
    /// streams whose saved replays already ran in this process
    pub replayed_streams: Mutex<BTreeSet<String>>,
    /// env recorded into replay files (configuration of this process)
    pub env_for_replay: BTreeMap<String, String>,
}

pub fn sig_of(msg: &str) -> String {
    // message convention: "[sig:<signature>] free text"
    if let Some(rest) = msg.strip_prefix("[sig:") {
        if let Some(end) = rest.find(']') {
            return rest[..end].to_string();
        }
    }
    "unclassified".to_string()
}

impl Ctx {
    pub fn new(id: &str, tier: Tier, seed: u64, level: &'static str) -> Ctx {
        let known: Vec<KnownFinding> = std::fs::read_to_string(format!("{VERIF_ROOT}/known_findings.json"))
            .ok()
            .and_then(|s| serde_json::from_str(&s).ok())
            .unwrap_or_default();
        let mut env_for_replay = BTreeMap::new();
        for (k, v) in std::env::vars() {
            if k.starts_with("HF_XET_") {
                env_for_replay.insert(k, v);
            }
        }
        Ctx {
            id: id.to_string(),
            tier,
            seed,
            level,
            replay: None,
            is_worker: false,
            worker_spec: None,
            known,
            stats: Mutex::new(Stats::default()),
            stop: AtomicBool::new(false),
            start: Instant::now(),
            printed_known: Mutex::new(BTreeSet::new()),
            replayed_streams: Mutex::new(BTreeSet::new()),
            env_for_replay,
        }
    }

    pub fn is_known(&self, sig: &str) -> Option<&KnownFinding> {
        self.known.iter().find(|k| k.property == self.id && k.signature == sig && k.status == "known")
    }

    pub fn add_extra(&self, k: &str, v: Value) {
        self.stats.lock().unwrap().extra.insert(k.to_string(), v);
    }
    pub fn bump_extra(&self, k: &str, n: u64) {
        let mut st = self.stats.lock().unwrap();
        let cur = st.extra.get(k).and_then(|x| x.as_u64()).unwrap_or(0);
        st.extra.insert(k.to_string(), json!(cur + n));
    }

    pub fn inconclusive(&self, why: impl Into<String>) {
        let w = why.into();
        eprintln!("INCONCLUSIVE {}: {}", self.id, w);
        self.stats.lock().unwrap().inconclusive.push(w);
    }

    fn replay_dir(&self) -> PathBuf {
        PathBuf::from(format!("{VERIF_ROOT}/replays/{}", self.id))
    }

    /// where new replay files and evidence are written (XV_OUT redirects both, used by
    /// mutation / seeded-change runs so they do not disturb the committed files)
    fn out_root() -> String {
        std::env::var("XV_OUT").unwrap_or_else(|_| VERIF_ROOT.to_string())
    }

    /// Record a failure (shrunk case) → replay file + VIOLATION / KNOWN-FINDING line.
    pub fn report_failure(&self, stream: &str, case: Value, message: &str) {
        let signature = sig_of(message);
        let known = self.is_known(&signature).is_some();
        let fp = fnv64(serde_json::to_string(&case).unwrap_or_default().as_bytes());
        let dir = PathBuf::from(format!("{}/replays/{}", Self::out_root(), self.id));
        let _ = std::fs::create_dir_all(&dir);
        let path = dir.join(format!("{}-{:016x}.json", stream, fp));
        let rf = ReplayFile {
            property: self.id.clone(),
            stream: stream.to_string(),
            env: self.env_for_replay.clone(),
            case,
            message: message.to_string(),
            signature: signature.clone(),
        };
        // if we are replaying, do not rewrite the file we were given
        if self.replay.is_none() && !known {
            if let Ok(s) = serde_json::to_string_pretty(&rf) {
                let _ = std::fs::write(&path, s);
            }
        }
        let replay = path.to_string_lossy().to_string();
        if known {
            self.note_known(&signature);
        } else if !self.is_worker {
            println!("VIOLATION property={} replay={}", self.id, replay);
            println!("  stream={} signature={} :: {}", stream, signature, truncate(message, 1500));
        }
        self.stats.lock().unwrap().failures.push(Failure {
            stream: stream.to_string(),
            message: truncate(message, 4000),
            signature,
            replay,
            known,
        });
        if !known {
            self.stop.store(true, Ordering::SeqCst);
        }
    }

    pub fn note_known(&self, signature: &str) {
        *self.stats.lock().unwrap().known_hits.entry(signature.to_string()).or_default() += 1;
        if !self.is_worker {
            self.print_known(signature);
        }
    }

    pub fn print_known(&self, signature: &str) {
        let mut p = self.printed_known.lock().unwrap();
        if p.insert(signature.to_string()) {
            let what = self.is_known(signature).map(|k| k.what.clone()).unwrap_or_default();
            println!("KNOWN-FINDING: property={} signature={} {}", self.id, signature, what);
        }
    }

    /// Run the replay files committed for this property and stream through the oracle first.
    fn run_saved_replays<T, F>(&self, stream: &str, f: &F)
    where
        T: Debug + Serialize + DeserializeOwned,
        F: Fn(&T, &mut Case) -> Result<(), String> + Sync,
    {
        if !self.replayed_streams.lock().unwrap().insert(stream.to_string()) {
            return;
        }
        let dir = self.replay_dir();
        let Ok(rd) = std::fs::read_dir(&dir) else { return };
        let mut files: Vec<PathBuf> = rd.filter_map(|e| e.ok().map(|e| e.path())).filter(|p| p.extension().map(|e| e == "json").unwrap_or(false)).collect();
        files.sort();
        for p in files {
            let Ok(s) = std::fs::read_to_string(&p) else { continue };
            let Ok(rf) = serde_json::from_str::<ReplayFile>(&s) else { continue };
            if rf.stream != stream || rf.property != self.id {
                continue;
            }
            // configuration-bound replays only run in a process with that configuration
            if rf.env != self.env_for_replay {
                continue;
            }
            let Ok(case) = serde_json::from_value::<T>(rf.case.clone()) else { continue };
            self.stats.lock().unwrap().replays_run += 1;
            let mut c = Case { nontrivial: false, labels: vec![], note: None };
            let r = run_guarded(|| f(&case, &mut c));
            if let Err(msg) = r {
                let sig = sig_of(&msg);
                if self.is_known(&sig).is_some() {
                    self.note_known(&sig);
                } else {
                    if !self.is_worker {
                        println!("VIOLATION property={} replay={}", self.id, p.display());
                        println!("  (saved replay) stream={} :: {}", stream, truncate(&msg, 1500));
                    }
                    self.stats.lock().unwrap().failures.push(Failure {
                        stream: stream.to_string(),
                        message: truncate(&msg, 4000),
                        signature: sig,
                        replay: p.to_string_lossy().to_string(),
                        known: false,
                    });
                    self.stop.store(true, Ordering::SeqCst);
                }
            }
        }
    }

    /// Generated-input search of one stream: `cases` cases over `threads` independent seeded
    /// runners. The closure is the oracle: Ok = held, Err(msg) = violated (msg may start with
    /// "[sig:…]"). Panics inside the closure are failures too.
    pub fn explore<T, S, G, F>(&self, stream: &str, cases: u32, threads: u32, strat: G, f: F)
    where
        G: Fn() -> S + Sync,
        S: Strategy<Value = T>,
        T: Debug + Serialize + DeserializeOwned,
        F: Fn(&T, &mut Case) -> Result<(), String> + Sync,
    {
        // explicit replay of one file
        if let Some(rf) = &self.replay {
            if rf.stream != stream {
                return;
            }
            let case: T = match serde_json::from_value(rf.case.clone()) {
                Ok(c) => c,
                Err(e) => {
                    self.inconclusive(format!("replay file does not decode for stream {stream}: {e}"));
                    return;
                },
            };
            let mut c = Case { nontrivial: false, labels: vec![], note: None };
            let r = run_guarded(|| f(&case, &mut c));
            {
                let mut st = self.stats.lock().unwrap();
                st.evaluations += 1;
                st.replays_run += 1;
            }
            if let Err(msg) = r {
                self.report_failure(stream, rf.case.clone(), &msg);
            } else {
                println!("replay {}: oracle holds", stream);
            }
            return;
        }
        if self.stop.load(Ordering::SeqCst) {
            return;
        }
        if self.is_worker {
            if let Some(spec) = &self.worker_spec {
                if let Some(ws) = spec.get("stream").and_then(|x| x.as_str()) {
                    if ws != stream {
                        return;
                    }
                    let n = spec.get("cases").and_then(|x| x.as_u64()).unwrap_or(0) as u32;
                    let tidx = spec.get("tidx").and_then(|x| x.as_u64()).unwrap_or(0);
                    // every worker tries the saved replays; they only run where the configuration matches
                    let _ = tidx;
                    self.run_saved_replays::<T, F>(stream, &f);
                    if n > 0 && !self.stop.load(Ordering::SeqCst) {
                        self.run_one_runner(stream, n, tidx, strat(), &f);
                    }
                    return;
                }
            }
        }
        self.run_saved_replays::<T, F>(stream, &f);
        if self.stop.load(Ordering::SeqCst) || cases == 0 {
            return;
        }
        let threads = threads.max(1).min(cases.max(1));
        let per = cases / threads;
        let rem = cases % threads;
        std::thread::scope(|scope| {
            for t in 0..threads {
                let n = per + if t < rem { 1 } else { 0 };
                if n == 0 {
                    continue;
                }
                let strat = &strat;
                let f = &f;
                let this = &*self;
                let stream_s = stream.to_string();
                std::thread::Builder::new()
                    .stack_size(64 << 20)
                    .spawn_scoped(scope, move || this.run_one_runner(&stream_s, n, t as u64, strat(), f))
                    .expect("spawn");
            }
        });
    }

    fn run_one_runner<T, S, F>(&self, stream: &str, cases: u32, tidx: u64, strat: S, f: &F)
    where
        S: Strategy<Value = T>,
        T: Debug + Serialize + DeserializeOwned,
        F: Fn(&T, &mut Case) -> Result<(), String> + Sync,
    {
        let cfg = Config {
            cases,
            failure_persistence: None,
            rng_seed: RngSeed::Fixed(mix_seed(self.seed, &self.id, stream, tidx)),
            max_shrink_iters: if std::env::var_os("XV_NO_SHRINK").is_some() { 0 } else { 4000 },
            max_shrink_time: 120_000,
            max_global_rejects: 1 << 20,
            verbose: 0,
            ..Config::default()
        };
        let mut runner = TestRunner::new(cfg);
        let failed = AtomicBool::new(false);
        let first_sig: Mutex<Option<String>> = Mutex::new(None);
        let local = Mutex::new(Stats::default());
        let res = runner.run(&strat, |case| {
            if self.stop.load(Ordering::SeqCst) && !failed.load(Ordering::SeqCst) {
                // another runner failed: finish quickly without counting
                return Ok(());
            }
            let counting = !failed.load(Ordering::SeqCst);
            let mut c = Case { nontrivial: false, labels: vec![], note: None };
            let r = run_guarded(|| f(&case, &mut c));
            let r = match r {
                Err(msg) if sig_of(&msg) == "infra" => {
                    // harness / environment problem (temp dir, store set-up …): never a violation
                    if counting {
                        self.inconclusive(format!("stream {stream}: {}", truncate(&msg, 400)));
                    }
                    Ok(())
                },
                Err(msg) if !counting && first_sig.lock().unwrap().as_deref() != Some(sig_of(&msg).as_str()) => {
                    // shrinking: only candidates that fail the same way count as failing ("minimise your
                    // failure, not any failure")
                    Ok(())
                },
                Err(msg) => {
                    let sig = sig_of(&msg);
                    if self.is_known(&sig).is_some() {
                        // tolerated in-target so that the search continues behind a known finding
                        if counting {
                            self.note_known(&sig);
                            c.labels.push(format!("known-finding:{sig}"));
                        }
                        Ok(())
                    } else {
                        Err(msg)
                    }
                },
                ok => ok,
            };
            if counting {
                let mut st = local.lock().unwrap();
                st.evaluations += 1;
                let e = st.per_stream.entry(stream.to_string()).or_default();
                e.0 += 1;
                if c.nontrivial {
                    e.1 += 1;
                    st.nontrivial_evals += 1;
                    let js = serde_json::to_string(&case).unwrap_or_else(|_| format!("{:?}", case));
                    let mut fp_in = Vec::with_capacity(js.len() + stream.len());
                    fp_in.extend_from_slice(stream.as_bytes());
                    fp_in.extend_from_slice(js.as_bytes());
                    let fresh = st.nontrivial.insert(fnv64(&fp_in));
                    if fresh && st.samples.len() < 2 && js.len() < 6000 {
                        let mut s = json!({"stream": stream, "case": serde_json::to_value(&case).unwrap_or(Value::Null)});
                        if let Some(n) = c.note.take() {
                            s["observed"] = n;
                        }
                        if !c.labels.is_empty() {
                            s["labels"] = json!(c.labels);
                        }
                        st.samples.push(s);
                    }
                }
                for l in c.labels.drain(..) {
                    *st.labels.entry(l).or_default() += 1;
                }
            }
            match r {
                Ok(()) => Ok(()),
                Err(msg) => {
                    if !failed.swap(true, Ordering::SeqCst) {
                        *first_sig.lock().unwrap() = Some(sig_of(&msg));
                    }
                    self.stop.store(true, Ordering::SeqCst);
                    Err(TestCaseError::fail(msg))
                },
            }
        });
        let st = std::mem::take(&mut *local.lock().unwrap());
        self.stats.lock().unwrap().merge(st);
        match res {
            Ok(()) => {},
            Err(TestError::Fail(reason, value)) => {
                let v = serde_json::to_value(&value).unwrap_or_else(|_| json!(format!("{:?}", value)));
                self.report_failure(stream, v, &reason.message().to_string());
            },
            Err(TestError::Abort(reason)) => {
                self.inconclusive(format!("stream {stream}: generator aborted: {}", reason.message()));
            },
        }
    }

    /// Exhaustive / scripted cases (no random generator): still counted, replayable by index.
    pub fn enumerate<T, I, F>(&self, stream: &str, items: I, f: F)
    where
        I: IntoIterator<Item = T>,
        T: Debug + Serialize + DeserializeOwned,
        F: Fn(&T, &mut Case) -> Result<(), String> + Sync,
    {
        if let Some(rf) = &self.replay {
            if rf.stream != stream {
                return;
            }
            let Ok(case) = serde_json::from_value::<T>(rf.case.clone()) else {
                self.inconclusive("replay does not decode");
                return;
            };
            let mut c = Case { nontrivial: false, labels: vec![], note: None };
            self.stats.lock().unwrap().evaluations += 1;
            if let Err(msg) = run_guarded(|| f(&case, &mut c)) {
                self.report_failure(stream, rf.case.clone(), &msg);
            } else {
                println!("replay {}: oracle holds", stream);
            }
            return;
        }
        self.run_saved_replays::<T, F>(stream, &f);
        for case in items {
            if self.stop.load(Ordering::SeqCst) {
                return;
            }
            let mut c = Case { nontrivial: false, labels: vec![], note: None };
            let r = run_guarded(|| f(&case, &mut c));
            {
                let mut st = self.stats.lock().unwrap();
                st.evaluations += 1;
                let e = st.per_stream.entry(stream.to_string()).or_default();
                e.0 += 1;
                if c.nontrivial {
                    e.1 += 1;
                    st.nontrivial_evals += 1;
                    let js = serde_json::to_string(&case).unwrap_or_default();
                    let mut fp_in = stream.as_bytes().to_vec();
                    fp_in.extend_from_slice(js.as_bytes());
                    let fresh = st.nontrivial.insert(fnv64(&fp_in));
                    if fresh && st.samples.len() < 12 && js.len() < 6000 && st.per_stream[stream].1 <= 2 {
                        let mut s = json!({"stream": stream, "case": serde_json::to_value(&case).unwrap_or(Value::Null)});
                        if let Some(n) = c.note.take() {
                            s["observed"] = n;
                        }
                        st.samples.push(s);
                    }
                }
                for l in c.labels.drain(..) {
                    *st.labels.entry(l).or_default() += 1;
                }
            }
            if let Err(msg) = r {
                let sig = sig_of(&msg);
                if self.is_known(&sig).is_some() {
                    self.note_known(&sig);
                    continue;
                }
                self.report_failure(stream, serde_json::to_value(&case).unwrap_or(Value::Null), &msg);
                return;
            }
        }
    }

    /// Write evidence and return the process exit code.
    pub fn finish(&self, rule: &str, assumptions: &[&str]) -> i32 {
        let st = self.stats.lock().unwrap().clone();
        let violations = st.failures.iter().filter(|f| !f.known).count();
        if self.is_worker {
            return if violations > 0 { 1 } else { 0 };
        }
        for k in st.known_hits.keys() {
            self.print_known(k);
        }
        let mut coverage = json!({
            "evaluations": st.evaluations,
            "distinct_nontrivial": st.nontrivial.len(),
            "nontrivial_evaluations": st.nontrivial_evals,
            "rule": rule,
            "samples": st.samples,
            "labels": st.labels,
            "per_stream_evaluations_nontrivial": st.per_stream,
            "saved_replays_run": st.replays_run,
            "known_finding_hits": st.known_hits,
            "inconclusive": st.inconclusive,
            "exhaustive": st.exhaustive,
        });
        for (k, v) in &st.extra {
            coverage[k] = v.clone();
        }
        let ev = json!({
            "property_id": self.id,
            "tier": self.tier.name(),
            "seed": self.seed,
            "level": self.level,
            "coverage": coverage,
            "assumptions": assumptions,
            "wall_s": (self.start.elapsed().as_millis() as f64) / 1000.0,
            "violations": violations,
            "failures": st.failures,
        });
        if self.replay.is_none() {
            let _ = std::fs::create_dir_all(format!("{}/evidence", Self::out_root()));
            let p = format!("{}/evidence/{}.json", Self::out_root(), self.id);
            let tmp = format!("{p}.tmp{}", std::process::id());
            if std::fs::write(&tmp, serde_json::to_string_pretty(&ev).unwrap()).is_ok() {
                let _ = std::fs::rename(&tmp, &p);
            }
        }
        println!(
            "{} tier={} seed={} evaluations={} distinct_nontrivial={} violations={} known_hits={} wall={:.1}s",
            self.id,
            self.tier.name(),
            self.seed,
            st.evaluations,
            st.nontrivial.len(),
            violations,
            st.known_hits.values().sum::<u64>(),
            self.start.elapsed().as_secs_f64()
        );
        let mut labs: Vec<_> = st.labels.iter().collect();
        labs.sort();
        for (k, v) in labs {
            println!("  label {:<46} {}", k, v);
        }
        if violations > 0 {
            1
        } else if !st.inconclusive.is_empty() {
            2
        } else {
            0
        }
    }
}

pub fn truncate(s: &str, n: usize) -> String {
    if s.len() <= n {
        s.to_string()
    } else {
        let mut e = n;
        while !s.is_char_boundary(e) {
            e -= 1;
        }
        format!("{}…[{} bytes]", &s[..e], s.len())
    }
}

/// last panic message seen on any thread (panics on runtime worker threads are reported to the
/// caller as join errors without their message)
pub static LAST_PANIC_GLOBAL: Mutex<Option<String>> = Mutex::new(None);

thread_local! {
    pub static LAST_PANIC: std::cell::RefCell<Option<String>> = const { std::cell::RefCell::new(None) };
}

pub fn install_quiet_panic_hook() {
    std::panic::set_hook(Box::new(|info| {
        let loc = info.location().map(|l| format!("{}:{}", l.file(), l.line())).unwrap_or_default();
        let msg = if let Some(s) = info.payload().downcast_ref::<&str>() {
            s.to_string()
        } else if let Some(s) = info.payload().downcast_ref::<String>() {
            s.clone()
        } else {
            "<non-string panic>".to_string()
        };
        LAST_PANIC.with(|p| *p.borrow_mut() = Some(format!("{msg} @ {loc}")));
        if let Ok(mut g) = LAST_PANIC_GLOBAL.try_lock() {
            *g = Some(format!("{msg} @ {loc}"));
        }
        if std::env::var_os("XV_VERBOSE_PANIC").is_some() {
            eprintln!("panic: {msg} @ {loc}");
        }
    }));
}

/// signature of a panic: "panic:<source file name>:<message head>" (no line numbers, they move)
pub fn panic_signature(msg: &str) -> String {
    let (m, loc) = match msg.rfind(" @ ") {
        Some(i) => (&msg[..i], &msg[i + 3..]),
        None => (msg, ""),
    };
    let file = loc.rsplit('/').next().unwrap_or("").split(':').next().unwrap_or("");
    // first line only, letters only (values and line numbers vary between cases and edits)
    let first = m.lines().next().unwrap_or("");
    let head: String = first.chars().map(|c| if c.is_ascii_alphabetic() { c } else { ' ' }).collect();
    let words: Vec<&str> = head.split_whitespace().take(6).collect();
    format!("panic:{}:{}", file, words.join("_"))
}

/// Runs the oracle closure, turning a panic into an `Err` that carries message and location.
pub fn run_guarded<F: FnOnce() -> Result<(), String>>(f: F) -> Result<(), String> {
    match std::panic::catch_unwind(std::panic::AssertUnwindSafe(f)) {
        Ok(r) => r,
        Err(p) => {
            let from_hook = LAST_PANIC.with(|p| p.borrow_mut().take());
            let msg = from_hook.unwrap_or_else(|| {
                if let Some(s) = p.downcast_ref::<&str>() {
                    s.to_string()
                } else if let Some(s) = p.downcast_ref::<String>() {
                    s.clone()
                } else {
                    "<panic>".to_string()
                }
            });
            Err(format!("[sig:{}] panic in code under test: {msg}", panic_signature(&msg)))
        },
    }
}

// ---------------------------------------------------------------------------------------------
// child-process workers
// ---------------------------------------------------------------------------------------------

#[derive(Clone, Debug)]
pub struct Job {
    pub name: String,
    pub env: BTreeMap<String, String>,
    pub spec: Value,
    pub timeout: Duration,
}

pub struct JobResult {
    pub job: Job,
    pub stats: Option<Stats>,
    pub status: Option<i32>,
    pub signal: Option<i32>,
    pub timed_out: bool,
    pub stderr_tail: String,
    pub journal: String,
}

pub fn work_dir() -> PathBuf {
    let base = std::env::var("XV_WORK").unwrap_or_else(|_| format!("{VERIF_ROOT}/work"));
    let p = PathBuf::from(base);
    let _ = std::fs::create_dir_all(&p);
    p
}

impl Ctx {
    /// Run jobs as child processes of this binary (`xv <ID> --worker <specfile>`), `par` at a time.
    pub fn run_jobs(&self, jobs: Vec<Job>, par: usize) -> Vec<JobResult> {
        use std::os::unix::process::ExitStatusExt;
        let exe = std::env::current_exe().expect("current_exe");
        let wd = tempfile::Builder::new().prefix(&format!("xv-{}-", self.id)).tempdir_in(work_dir()).expect("tempdir");
        let queue = Mutex::new(jobs.into_iter().enumerate().collect::<Vec<_>>());
        let results = Mutex::new(Vec::new());
        std::thread::scope(|scope| {
            for _ in 0..par.max(1) {
                scope.spawn(|| loop {
                    let Some((i, job)) = ({
                        let mut q = queue.lock().unwrap();
                        if q.is_empty() {
                            None
                        } else {
                            Some(q.remove(0))
                        }
                    }) else {
                        return;
                    };
                    if self.stop.load(Ordering::SeqCst) {
                        continue;
                    }
                    let spec_path = wd.path().join(format!("job{i}.spec.json"));
                    let out_path = wd.path().join(format!("job{i}.out.json"));
                    let journal_path = wd.path().join(format!("job{i}.journal"));
                    let err_path = wd.path().join(format!("job{i}.stderr"));
                    std::fs::write(&spec_path, serde_json::to_string(&job.spec).unwrap()).unwrap();
                    let mut cmd = Command::new(&exe);
                    cmd.arg(&self.id)
                        .arg("--tier")
                        .arg(self.tier.name())
                        .arg("--seed")
                        .arg(self.seed.to_string())
                        .arg("--worker")
                        .arg(&spec_path)
                        .arg("--out")
                        .arg(&out_path)
                        .env("XV_JOURNAL", &journal_path)
                        .env("XV_WORK", wd.path().join(format!("w{i}")))
                        .env("RUST_BACKTRACE", "0")
                        .stdin(Stdio::null())
                        .stdout(Stdio::null())
                        .stderr(std::fs::File::create(&err_path).unwrap());
                    // scrub configuration inherited from the parent, then apply the job's
                    for (k, _) in std::env::vars() {
                        if k.starts_with("HF_XET_") {
                            cmd.env_remove(k);
                        }
                    }
                    for (k, v) in &job.env {
                        cmd.env(k, v);
                    }
                    let mut child = cmd.spawn().expect("spawn worker");
                    let t0 = Instant::now();
                    let mut timed_out = false;
                    let status = loop {
                        match child.try_wait() {
                            Ok(Some(s)) => break Some(s),
                            Ok(None) => {
                                if t0.elapsed() > job.timeout {
                                    let _ = child.kill();
                                    let _ = child.wait();
                                    timed_out = true;
                                    break None;
                                }
                                std::thread::sleep(Duration::from_millis(5));
                            },
                            Err(_) => break None,
                        }
                    };
                    let stats = std::fs::read_to_string(&out_path).ok().and_then(|s| serde_json::from_str::<Stats>(&s).ok());
                    let stderr_tail = std::fs::read_to_string(&err_path).map(|s| truncate_tail(&s, 3000)).unwrap_or_default();
                    let journal = std::fs::read_to_string(&journal_path).unwrap_or_default();
                    results.lock().unwrap().push((
                        i,
                        JobResult {
                            job,
                            stats,
                            status: status.and_then(|s| s.code()),
                            signal: status.and_then(|s| s.signal()),
                            timed_out,
                            stderr_tail,
                            journal,
                        },
                    ));
                });
            }
        });
        let mut r = results.into_inner().unwrap();
        r.sort_by_key(|(i, _)| *i);
        r.into_iter().map(|(_, r)| r).collect()
    }

    /// Parent side of a stream explored in `n` single-runner child processes (crash / allocation /
    /// configuration isolation). A child that dies leaves its current case in the journal; that
    /// case becomes the replay of a violation with signature `worker-died:<marker>`.
    pub fn explore_workers(&self, stream: &str, cases: u32, n: u32, env: &BTreeMap<String, String>, timeout: Duration) {
        if self.stop.load(Ordering::SeqCst) {
            return;
        }
        let n = n.max(1).min(cases.max(1));
        let jobs: Vec<Job> = (0..n)
            .map(|t| Job {
                name: format!("{stream}#{t}"),
                env: env.clone(),
                spec: json!({"stream": stream, "cases": cases / n + if t < cases % n { 1 } else { 0 }, "tidx": t}),
                timeout,
            })
            .collect();
        let results = self.run_jobs(jobs, 16);
        self.absorb_with_journal(stream, results);
    }

    pub fn absorb_with_journal(&self, stream: &str, results: Vec<JobResult>) {
        let mut rest = Vec::new();
        for r in results {
            let died = !r.timed_out && (r.signal.is_some() || r.stats.is_none());
            if died && !r.journal.trim().is_empty() {
                let marker = if r.stderr_tail.contains("ALLOC-CAP") {
                    "alloc-cap".to_string()
                } else if let Some(sig) = r.signal {
                    format!("signal-{sig}")
                } else {
                    format!("exit-{:?}", r.status)
                };
                let case: Value = serde_json::from_str(&r.journal).unwrap_or(Value::String(r.journal.clone()));
                self.report_failure(
                    stream,
                    case,
                    &format!("[sig:worker-died:{marker}] the process running this case died ({marker}); stderr tail: {}", truncate_tail(&r.stderr_tail, 600)),
                );
            } else {
                rest.push(r);
            }
        }
        self.absorb(rest);
    }

    /// Default aggregation: merge worker stats; print violations found by workers; abnormal
    /// worker ends are inconclusive unless the caller handles them first.
    pub fn absorb(&self, results: Vec<JobResult>) {
        for r in results {
            let abnormal = r.timed_out || r.stats.is_none();
            if let Some(st) = r.stats {
                for f in &st.failures {
                    if !f.known {
                        println!("VIOLATION property={} replay={}", self.id, f.replay);
                        println!("  stream={} signature={} :: {}", f.stream, f.signature, truncate(&f.message, 1500));
                        self.stop.store(true, Ordering::SeqCst);
                    }
                }
                self.stats.lock().unwrap().merge(st);
            }
            if abnormal && !self.stop.load(Ordering::SeqCst) {
                self.inconclusive(format!(
                    "worker {} ended abnormally (timeout={} status={:?} signal={:?}) stderr: {}",
                    r.job.name, r.timed_out, r.status, r.signal, r.stderr_tail
                ));
            }
        }
    }
}

pub fn truncate_tail(s: &str, n: usize) -> String {
    if s.len() <= n {
        s.to_string()
    } else {
        let mut b = s.len() - n;
        while !s.is_char_boundary(b) {
            b += 1;
        }
        s[b..].to_string()
    }
}

/// Worker side: one-line journal ("about to run case …") so a dead child still yields a replay.
pub fn journal(line: &str) {
    if let Ok(p) = std::env::var("XV_JOURNAL") {
        if let Ok(mut f) = std::fs::OpenOptions::new().create(true).write(true).truncate(true).open(Path::new(&p)) {
            let _ = f.write_all(line.as_bytes());
        }
    }
}

/// Monotone index mapping (keeps proptest shrinking effective; `%` would not).
pub fn idx(i: u16, len: usize) -> usize {
    if len == 0 {
        0
    } else {
        ((i as usize) * len) >> 16
    }
}

/// Draw one value from a strategy with a fixed seed (for parent-side generation of configurations).
pub fn draw<S: Strategy>(strat: &S, seed: u64) -> S::Value {
    let cfg = Config { rng_seed: RngSeed::Fixed(seed), failure_persistence: None, ..Config::default() };
    let mut runner = TestRunner::new(cfg);
    strat.new_tree(&mut runner).expect("strategy").current()
}
