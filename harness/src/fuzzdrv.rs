//! Driver for the coverage-guided (libFuzzer / cargo-fuzz) targets under /verif/fuzz: builds a
//! target against the repository's current working tree, seeds a fresh corpus, runs a fixed number
//! of executions in several independent processes, and turns a crash (= a failed oracle inside the
//! target, or a panic of the code under test) into a replay file and a VIOLATION line.
//!
//! Time-outs, out-of-memory stops and build failures are reported as inconclusive, never as a
//! violation.

use std::path::{Path, PathBuf};
use std::process::{Command, Stdio};

use base64::Engine as _;
use serde_json::{json, Value};

use crate::engine::{draw, fnv64, mix_seed, panic_signature, truncate, work_dir, Ctx, Sm64, Tier, VERIF_ROOT};

pub struct FuzzPlan {
    pub target: &'static str,
    /// executions per process
    pub runs: u64,
    pub max_len: usize,
    pub jobs: usize,
}

fn fuzz_dir() -> PathBuf {
    PathBuf::from(format!("{VERIF_ROOT}/fuzz"))
}

fn binary(target: &str) -> PathBuf {
    fuzz_dir().join("target/x86_64-unknown-linux-gnu/release").join(target)
}

/// `cargo +nightly fuzz build` (offline). Err = inconclusive.
fn build(target: &str) -> Result<(), String> {
    let out = Command::new("cargo")
        .args(["+nightly", "fuzz", "build", "--fuzz-dir"])
        .arg(fuzz_dir())
        .arg(target)
        .env("CARGO_NET_OFFLINE", "true")
        .env_remove("RUSTC_WRAPPER")
        .current_dir(fuzz_dir())
        .output()
        .map_err(|e| format!("cannot run cargo fuzz build: {e}"))?;
    if !out.status.success() {
        return Err(format!("cargo fuzz build {target} failed: {}", crate::engine::truncate_tail(&String::from_utf8_lossy(&out.stderr), 1500)));
    }
    if !binary(target).exists() {
        return Err(format!("fuzz binary {} missing after the build", binary(target).display()));
    }
    Ok(())
}

/// Small valid starting inputs (the fuzzers are also started from these; libFuzzer ramps up the
/// input length slowly from an empty corpus, and the xorb format has magic values).
pub fn gen_corpus(target: &str, dir: &Path, seed: u64) {
    std::fs::create_dir_all(dir).expect("corpus dir");
    match target {
        "xorb_validate" => {
            for k in 0..24u64 {
                let spec = draw(&crate::gen::xorb::xorb_spec_strategy(5, false), mix_seed(seed, "fuzz", target, 1000 + k));
                if let Ok(b) = crate::gen::xorb::build(&spec) {
                    if b.bytes.len() > 120_000 {
                        continue;
                    }
                    // claimed hash + selector 0, then the object; and a variant without footer
                    let mut v = b.hash.to_vec();
                    v.push(0);
                    v.extend_from_slice(&b.bytes);
                    std::fs::write(dir.join(format!("valid-{k}")), &v).unwrap();
                    if let Ok(parsed) = crate::refs::xorb::parse(&b.bytes) {
                        let mut w = b.hash.to_vec();
                        w.push(1);
                        w.extend_from_slice(&b.bytes[..parsed.content_end]);
                        std::fs::write(dir.join(format!("nofooter-{k}")), &w).unwrap();
                    }
                }
            }
        },
        _ => {
            for k in 0..16u64 {
                let n = 16 + (k * 997 % 6000) as usize;
                let mut v = vec![(k % 4) as u8, (k % 9) as u8, 3];
                v.extend(Sm64(mix_seed(seed, "fuzz", target, k)).bytes(n));
                if k % 3 == 0 {
                    // low-entropy variant
                    for b in v.iter_mut().skip(8) {
                        *b &= 0x11;
                    }
                }
                std::fs::write(dir.join(format!("seed-{k}")), &v).unwrap();
            }
            if target == "hash_text" {
                std::fs::write(dir.join("hex"), "00112233445566778899aabbccddeeff00112233445566778899AABBCCDDEEFF").unwrap();
                std::fs::write(dir.join("b64"), "AAECAwQFBgcICQoLDA0ODxAREhMUFRYXGBkaGxwdHh8=").unwrap();
            }
        },
    }
}

struct JobOut {
    status: Option<i32>,
    stderr: String,
    artifacts: Vec<PathBuf>,
    executed: u64,
    cov: u64,
    ft: u64,
    corpus: u64,
}

fn stat(stderr: &str, key: &str) -> u64 {
    stderr.lines().rev().find_map(|l| l.strip_prefix(key).and_then(|r| r.trim().parse::<u64>().ok())).unwrap_or(0)
}

fn last_metric(stderr: &str, name: &str) -> u64 {
    // "#123 DONE   cov: 812 ft: 2101 corp: 77/12Kb ..."
    for l in stderr.lines().rev() {
        if l.starts_with('#') && l.contains(" cov: ") {
            let mut it = l.split_whitespace();
            while let Some(t) = it.next() {
                if t == name {
                    if let Some(v) = it.next() {
                        let v = v.split('/').next().unwrap_or("");
                        if let Ok(n) = v.parse::<u64>() {
                            return n;
                        }
                    }
                }
            }
        }
    }
    0
}

fn run_one(target: &str, corpus: &Path, artifacts: &Path, runs: u64, seed: u64, max_len: usize) -> JobOut {
    let _ = std::fs::create_dir_all(artifacts);
    let mut prefix = artifacts.to_string_lossy().to_string();
    prefix.push('/');
    let mut cmd = Command::new(binary(target));
    // fork + exec instead of vfork / posix_spawn: with a shared address space the child's peak-RSS counter
    // (ru_maxrss, which libFuzzer's -rss_limit_mb reads) starts at the *parent's* peak, and a parent that
    // has just run a memory-hungry proptest stream would make every fuzz process stop with "oom" at once
    unsafe {
        std::os::unix::process::CommandExt::pre_exec(&mut cmd, || Ok(()));
    }
    let out = cmd
        .arg(corpus)
        .arg(format!("-runs={runs}"))
        .arg(format!("-seed={}", (seed % 0xffff_fffe) + 1)) // 0 would mean "random"
        .arg("-len_control=0")
        .arg(format!("-max_len={max_len}"))
        .arg(format!("-artifact_prefix={prefix}"))
        .arg("-print_final_stats=1")
        // a wall-clock ceiling only bounds the campaign (fewer executions are reported as such); it is never a verdict
        .arg(format!("-max_total_time={}", std::env::var("XV_FUZZ_MAX_SECS").ok().and_then(|v| v.parse::<u64>().ok()).unwrap_or(1200)))
        .arg("-timeout=120")
        .arg("-rss_limit_mb=6144")
        .env("RUST_BACKTRACE", "0")
        .stdin(Stdio::null())
        .output();
    let (status, stderr) = match out {
        Ok(o) => (o.status.code(), String::from_utf8_lossy(&o.stderr).to_string()),
        Err(e) => (None, format!("spawn failed: {e}")),
    };
    let mut arts: Vec<PathBuf> = std::fs::read_dir(artifacts).map(|rd| rd.flatten().map(|e| e.path()).collect()).unwrap_or_default();
    arts.sort();
    JobOut {
        status,
        executed: stat(&stderr, "stat::number_of_executed_units:"),
        cov: last_metric(&stderr, "cov:"),
        ft: last_metric(&stderr, "ft:"),
        corpus: last_metric(&stderr, "corp:"),
        stderr,
        artifacts: arts,
    }
}

fn crash_message(target: &str, stderr: &str) -> String {
    // the panic message of the oracle ("Cxx violated: [sig:..] ...") or of the code under test
    let mut loc = String::new();
    let mut msg = String::new();
    let mut take = 0;
    for l in stderr.lines() {
        if let Some(p) = l.find("panicked at ") {
            // "thread '<unnamed>' (1234) panicked at path/file.rs:24:9:" - the message follows on the next lines
            loc = l[p + "panicked at ".len()..].trim_end_matches(':').to_string();
            msg.clear();
            take = 3;
            continue;
        }
        if take > 0 && !l.starts_with("note:") && !l.starts_with("==") {
            if !msg.is_empty() {
                msg.push(' ');
            }
            msg.push_str(l.trim());
            take -= 1;
        }
    }
    if loc.is_empty() && msg.is_empty() {
        msg = truncate(&crate::engine::truncate_tail(stderr, 600), 600);
    }
    // an oracle failure carries its own signature; a panic of the code under test is keyed by file and text
    let sig = match msg.find("[sig:").and_then(|i| msg[i + 5..].find(']').map(|j| msg[i + 5..i + 5 + j].to_string())) {
        Some(inner) => inner,
        None => panic_signature(&format!("{msg} @ {loc}")),
    };
    format!("[sig:fuzz-{target}:{sig}] libFuzzer target {target} crashed at {loc}: {}", truncate(&msg, 1200))
}

fn case_of(target: &str, input: &[u8]) -> Value {
    json!({"fuzz_target": target, "len": input.len(), "input_b64": base64::engine::general_purpose::STANDARD.encode(input)})
}

/// Thorough-tier campaign. Adds its counts to the evidence under coverage.fuzz.
pub fn campaign(ctx: &Ctx, plan: FuzzPlan) {
    if ctx.tier != Tier::Thorough || ctx.is_worker || ctx.replay.is_some() || ctx.stop.load(std::sync::atomic::Ordering::SeqCst) {
        return;
    }
    if std::env::var("XV_REPO").map(|r| r != "/repo").unwrap_or(false) || std::env::var_os("XV_NO_FUZZ").is_some() {
        ctx.add_extra(&format!("fuzz_{}", plan.target), json!({"target": plan.target, "skipped": "scratch-repository run or XV_NO_FUZZ"}));
        return;
    }
    let t0 = std::time::Instant::now();
    if let Err(e) = build(plan.target) {
        ctx.inconclusive(format!("fuzz: {e}"));
        return;
    }
    let build_s = t0.elapsed().as_secs_f64();
    // saved fuzz failures of this target first (regression tier)
    if let Ok(rd) = std::fs::read_dir(format!("{VERIF_ROOT}/replays/{}", ctx.id)) {
        let scratch = tempfile::Builder::new().prefix("fuzz-saved-").tempdir_in(work_dir());
        for e in rd.flatten() {
            let name = e.file_name().to_string_lossy().to_string();
            if !name.starts_with(&format!("fuzz-{}-", plan.target)) {
                continue;
            }
            let Some(rf) = std::fs::read_to_string(e.path()).ok().and_then(|s| serde_json::from_str::<crate::engine::ReplayFile>(&s).ok()) else { continue };
            let Some(input) = rf.case.get("input_b64").and_then(|v| v.as_str()).and_then(|s| base64::engine::general_purpose::STANDARD.decode(s).ok()) else { continue };
            if let Ok(d) = &scratch {
                let (crashed, msg) = exec_single(plan.target, &input, d.path());
                ctx.stats.lock().unwrap().replays_run += 1;
                if crashed {
                    ctx.report_failure(&rf.stream, rf.case.clone(), &msg.unwrap_or_else(|| format!("[sig:fuzz-{}:crash] crashed", plan.target)));
                    return;
                }
            }
        }
    }
    let wd = match tempfile::Builder::new().prefix(&format!("fuzz-{}-", plan.target)).tempdir_in(work_dir()) {
        Ok(d) => d,
        Err(e) => {
            ctx.inconclusive(format!("fuzz: tempdir: {e}"));
            return;
        },
    };
    let t1 = std::time::Instant::now();
    let outs: Vec<JobOut> = std::thread::scope(|s| {
        let hs: Vec<_> = (0..plan.jobs)
            .map(|j| {
                let dir = wd.path().join(format!("job{j}"));
                let target = plan.target;
                let seed = mix_seed(ctx.seed, &ctx.id, target, j as u64);
                let (runs, max_len) = (plan.runs, plan.max_len);
                s.spawn(move || {
                    let corpus = dir.join("corpus");
                    // half of the processes start from generated valid inputs, the others from an empty corpus
                    if j % 2 == 0 {
                        gen_corpus(target, &corpus, seed);
                    } else {
                        let _ = std::fs::create_dir_all(&corpus);
                    }
                    run_one(target, &corpus, &dir.join("artifacts"), runs, seed, max_len)
                })
            })
            .collect();
        hs.into_iter().map(|h| h.join().expect("fuzz job thread")).collect()
    });
    let mut executed = 0;
    let (mut cov, mut ft, mut corpus) = (0, 0, 0);
    for o in &outs {
        executed += o.executed;
        cov = cov.max(o.cov);
        ft = ft.max(o.ft);
        corpus += o.corpus;
    }
    let mut crashes = 0;
    for (j, o) in outs.iter().enumerate() {
        let crash = o.artifacts.iter().find(|p| p.file_name().map(|n| n.to_string_lossy().starts_with("crash-")).unwrap_or(false));
        let other = o.artifacts.iter().find(|p| p.file_name().map(|n| !n.to_string_lossy().starts_with("crash-")).unwrap_or(false));
        if let Some(p) = crash {
            crashes += 1;
            if ctx.stop.load(std::sync::atomic::Ordering::SeqCst) {
                continue; // one report per run
            }
            let mut input = std::fs::read(p).unwrap_or_default();
            // minimise to the same failure signature (bounded effort)
            let msg = crash_message(plan.target, &o.stderr);
            input = minimise(plan.target, input, &crate::engine::sig_of(&msg), wd.path());
            let (_, msg2) = exec_single(plan.target, &input, wd.path());
            let msg = msg2.unwrap_or(msg);
            ctx.report_failure(&format!("fuzz-{}", plan.target), case_of(plan.target, &input), &msg);
        } else if let Some(p) = other {
            ctx.inconclusive(format!("fuzz: job {j} of {} stopped on {} (time-out / memory limit - not a violation)", plan.target, p.file_name().unwrap().to_string_lossy()));
        } else if o.status != Some(0) {
            ctx.inconclusive(format!("fuzz: job {j} of {} exited with {:?} without an artifact: {}", plan.target, o.status, crate::engine::truncate_tail(&o.stderr, 400)));
        }
    }
    {
        let mut st = ctx.stats.lock().unwrap();
        st.evaluations += executed;
        *st.labels.entry(format!("fuzz:{}:executions", plan.target)).or_default() += executed;
        let e = st.per_stream.entry(format!("fuzz-{}", plan.target)).or_default();
        e.0 += executed;
        // inputs libFuzzer kept because they reached new coverage / features
        e.1 += corpus;
    }
    ctx.add_extra(
        &format!("fuzz_{}", plan.target),
        json!({
            "engine": "libFuzzer via cargo-fuzz (debug assertions and overflow checks on)",
            "target": plan.target,
            "processes": plan.jobs,
            "runs_per_process": plan.runs,
            "max_total_time_s_per_process": std::env::var("XV_FUZZ_MAX_SECS").ok().and_then(|v| v.parse::<u64>().ok()).unwrap_or(1200),
            "max_len": plan.max_len,
            "executions": executed,
            "edge_coverage_max": cov,
            "features_max": ft,
            "corpus_units_kept_total": corpus,
            "crashes": crashes,
            "build_s": build_s,
            "run_s": t1.elapsed().as_secs_f64(),
            "starting_corpus": "even-numbered processes: generated valid inputs; odd-numbered: empty",
        }),
    );
}

/// run one input through the target binary; (crashed, message)
fn exec_single(target: &str, input: &[u8], dir: &Path) -> (bool, Option<String>) {
    let f = dir.join(format!("single-{:016x}", fnv64(input)));
    if std::fs::write(&f, input).is_err() {
        return (false, None);
    }
    let mut prefix = dir.join("single-art").to_string_lossy().to_string();
    let _ = std::fs::create_dir_all(&prefix);
    prefix.push('/');
    let mut cmd = Command::new(binary(target));
    unsafe {
        std::os::unix::process::CommandExt::pre_exec(&mut cmd, || Ok(()));
    }
    let out = cmd.arg(&f).arg(format!("-artifact_prefix={prefix}")).arg("-timeout=120").arg("-rss_limit_mb=6144").env("RUST_BACKTRACE", "0").stdin(Stdio::null()).output();
    let _ = std::fs::remove_file(&f);
    match out {
        Ok(o) if !o.status.success() => {
            let stderr = String::from_utf8_lossy(&o.stderr).to_string();
            if stderr.contains("panicked at") || stderr.contains("deadly signal") || stderr.contains("ERROR: AddressSanitizer") {
                (true, Some(crash_message(target, &stderr)))
            } else {
                (false, None)
            }
        },
        _ => (false, None),
    }
}

/// Greedy chunk removal keeping the same failure signature (a stand-in for `cargo fuzz tmin`, which
/// minimises to any crash rather than to this one).
fn minimise(target: &str, mut input: Vec<u8>, sig: &str, dir: &Path) -> Vec<u8> {
    let mut budget = 200;
    let mut chunk = (input.len() / 2).max(1);
    while chunk >= 1 && budget > 0 {
        let mut pos = 0;
        let mut progressed = false;
        while pos < input.len() && budget > 0 {
            let end = (pos + chunk).min(input.len());
            let mut cand = input[..pos].to_vec();
            cand.extend_from_slice(&input[end..]);
            budget -= 1;
            let (crashed, msg) = exec_single(target, &cand, dir);
            if crashed && msg.as_deref().map(crate::engine::sig_of).as_deref() == Some(sig) {
                input = cand;
                progressed = true;
            } else {
                pos = end;
            }
        }
        if chunk == 1 && !progressed {
            break;
        }
        chunk = if chunk == 1 { if progressed { 1 } else { 0 } } else { chunk / 2 };
        if chunk == 0 {
            break;
        }
    }
    input
}

/// Replay of a saved fuzz failure (`--replay` with a stream named fuzz-<target>).
pub fn replay(ctx: &Ctx) -> bool {
    let Some(rf) = &ctx.replay else { return false };
    let Some(target) = rf.stream.strip_prefix("fuzz-") else { return false };
    let target: &'static str = Box::leak(target.to_string().into_boxed_str());
    let input = rf.case.get("input_b64").and_then(|v| v.as_str()).and_then(|s| base64::engine::general_purpose::STANDARD.decode(s).ok());
    let Some(input) = input else {
        ctx.inconclusive("fuzz replay: case has no input_b64");
        return true;
    };
    if let Err(e) = build(target) {
        ctx.inconclusive(format!("fuzz: {e}"));
        return true;
    }
    let wd = tempfile::Builder::new().prefix("fuzz-replay-").tempdir_in(work_dir()).expect("tempdir");
    let (crashed, msg) = exec_single(target, &input, wd.path());
    {
        let mut st = ctx.stats.lock().unwrap();
        st.evaluations += 1;
        st.replays_run += 1;
    }
    if crashed {
        ctx.report_failure(&rf.stream, rf.case.clone(), &msg.unwrap_or_else(|| format!("[sig:fuzz-{target}:crash] crashed")));
    }
    true
}
