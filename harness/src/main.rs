use xv::{engine, props, util};

#[global_allocator]
static GLOBAL: util::alloc_guard::CountingAlloc = util::alloc_guard::CountingAlloc;

use std::path::PathBuf;

use engine::{Ctx, ReplayFile, Tier};

struct PropDef {
    id: &'static str,
    level: &'static str,
    rule: &'static str,
    assumptions: &'static [&'static str],
    run: fn(&Ctx),
}

fn props() -> Vec<PropDef> {
    macro_rules! p {
        ($id:literal, $m:ident, $lvl:literal) => {
            PropDef { id: $id, level: $lvl, rule: props::$m::RULE, assumptions: props::$m::ASSUMPTIONS, run: props::$m::run }
        };
    }
    vec![p!("C01", c01, "exploration"), p!("C02", c02, "exploration"), p!("C03", c03, "exploration"), p!("C04", c04, "exploration"), p!("C05", c05, "exploration"), p!("C06", c06, "exploration"), p!("C07", c07, "exploration"), p!("C08", c08, "exploration"), p!("C09", c09, "exploration"), p!("C10", c10, "exploration"), p!("C11", c11, "exploration"), p!("C12", c12, "exploration"), p!("C13", c13, "exploration"), p!("C14", c14, "exploration"), p!("C15", c15, "exploration"), p!("C16", c16, "fault_enumeration"), p!("C17", c17, "exploration"), p!("C18", c18, "exploration"), p!("C19", c19, "fault_enumeration"), p!("C20", c20, "exploration")]
}

fn usage() -> ! {
    eprintln!("usage: xv <ID> [--tier quick|thorough] [--seed N] [--replay FILE] [--worker SPEC --out FILE]");
    std::process::exit(2);
}

fn main() {
    let args: Vec<String> = std::env::args().collect();
    if args.len() < 2 {
        usage();
    }
    let id = args[1].clone();
    let mut tier = match std::env::var("VERIF_TIER").as_deref() {
        Ok("thorough") => Tier::Thorough,
        _ => Tier::Quick,
    };
    let mut seed: u64 = std::env::var("VERIF_SEED").ok().and_then(|s| s.trim().parse::<i64>().ok()).map(|v| v as u64).unwrap_or(0);
    let mut replay: Option<PathBuf> = None;
    let mut worker: Option<PathBuf> = None;
    let mut out: Option<PathBuf> = None;
    let mut i = 2;
    while i < args.len() {
        match args[i].as_str() {
            "--tier" => {
                i += 1;
                tier = match args.get(i).map(|s| s.as_str()) {
                    Some("quick") => Tier::Quick,
                    Some("thorough") => Tier::Thorough,
                    _ => usage(),
                };
            },
            "--seed" => {
                i += 1;
                seed = args.get(i).and_then(|s| s.parse::<i64>().ok()).map(|v| v as u64).unwrap_or_else(|| usage());
            },
            "--replay" => {
                i += 1;
                replay = Some(PathBuf::from(args.get(i).unwrap_or_else(|| usage())));
            },
            "--worker" => {
                i += 1;
                worker = Some(PathBuf::from(args.get(i).unwrap_or_else(|| usage())));
            },
            "--gen-corpus" => {
                // xv <anything> --gen-corpus <target> <dir>: small valid seed inputs for a fuzz target
                let target = args.get(i + 1).cloned().unwrap_or_else(|| usage());
                let dir = PathBuf::from(args.get(i + 2).cloned().unwrap_or_else(|| usage()));
                xv::fuzzdrv::gen_corpus(&target, &dir, seed);
                return;
            },
            "--crash-child" => {
                i += 1;
                engine::install_quiet_panic_hook();
                props::c19::child(std::path::Path::new(args.get(i).unwrap_or_else(|| usage())));
                return;
            },
            "--out" => {
                i += 1;
                out = Some(PathBuf::from(args.get(i).unwrap_or_else(|| usage())));
            },
            _ => usage(),
        }
        i += 1;
    }
    let defs = props();
    let Some(def) = defs.iter().find(|d| d.id == id) else {
        eprintln!("unknown property {id}");
        std::process::exit(2);
    };
    engine::install_quiet_panic_hook();

    // replay of a configuration-bound case: re-exec with that configuration
    if let Some(p) = &replay {
        let s = std::fs::read_to_string(p).unwrap_or_else(|e| {
            eprintln!("cannot read replay {}: {e}", p.display());
            std::process::exit(2)
        });
        let rf: ReplayFile = serde_json::from_str(&s).unwrap_or_else(|e| {
            eprintln!("cannot parse replay {}: {e}", p.display());
            std::process::exit(2)
        });
        if std::env::var_os("XV_REPLAY_CHILD").is_none() {
            let mut cmd = std::process::Command::new(std::env::current_exe().unwrap());
            cmd.args(&args[1..]).env("XV_REPLAY_CHILD", "1");
            for (k, _) in std::env::vars() {
                if k.starts_with("HF_XET_") {
                    cmd.env_remove(k);
                }
            }
            for (k, v) in &rf.env {
                cmd.env(k, v);
            }
            let st = cmd.status().expect("re-exec");
            match st.code() {
                Some(c) if c == 0 || c == 1 || c == 2 => std::process::exit(c),
                other => {
                    // the code under test killed the process (abort, allocation cap, stack overflow …)
                    println!("VIOLATION property={} replay={}", id, p.display());
                    println!("  the replayed case killed the process ({:?} / {:?})", other, st);
                    std::process::exit(1);
                },
            }
        }
        let mut ctx = Ctx::new(&id, tier, seed, def.level);
        ctx.replay = Some(rf);
        if !xv::fuzzdrv::replay(&ctx) {
            (def.run)(&ctx);
        }
        let code = ctx.finish(def.rule, def.assumptions);
        std::process::exit(code);
    }

    let mut ctx = Ctx::new(&id, tier, seed, def.level);
    if let Some(w) = &worker {
        ctx.is_worker = true;
        let spec = std::fs::read_to_string(w).ok().and_then(|s| serde_json::from_str(&s).ok()).unwrap_or(serde_json::Value::Null);
        ctx.worker_spec = Some(spec);
        (def.run)(&ctx);
        let st = ctx.stats.lock().unwrap().clone();
        if let Some(o) = out {
            std::fs::write(&o, serde_json::to_string(&st).unwrap()).expect("write worker output");
        }
        std::process::exit(0);
    }
    // XV_ONLY_FUZZ: sensitivity experiments on the fuzz targets alone
    if std::env::var_os("XV_ONLY_FUZZ").is_none() {
        // a panic of the harness itself (not of the code under test, which the oracles catch) - e.g. no
        // space left for a work directory - is an inconclusive run, never a verdict
        if let Err(p) = std::panic::catch_unwind(std::panic::AssertUnwindSafe(|| (def.run)(&ctx))) {
            let msg = p.downcast_ref::<String>().cloned().or_else(|| p.downcast_ref::<&str>().map(|s| s.to_string())).unwrap_or_default();
            let detail = engine::LAST_PANIC_GLOBAL.lock().ok().and_then(|g| g.clone()).unwrap_or_default();
            ctx.inconclusive(format!("harness panic: {msg} {detail}"));
        }
    }
    // thorough tier: coverage-guided campaign on the property's libFuzzer target, same oracles
    for plan in fuzz_plan(&id) {
        xv::fuzzdrv::campaign(&ctx, plan);
    }
    let code = ctx.finish(def.rule, def.assumptions);
    std::process::exit(code);
}

fn fuzz_plan(id: &str) -> Vec<xv::fuzzdrv::FuzzPlan> {
    use xv::fuzzdrv::FuzzPlan;
    let scale: u64 = std::env::var("XV_FUZZ_SCALE").ok().and_then(|s| s.parse().ok()).unwrap_or(100);
    let p = |target, runs: u64, max_len| FuzzPlan { target, runs: (runs * scale / 100).max(1000), max_len, jobs: 8 };
    match id {
        "C04" => vec![p("chunker_diff", 1_500_000, 40_000)],
        "C06" => vec![p("hash_text", 10_000_000, 1_024), p("merkle_tree", 120_000, 2_048)],
        "C07" => vec![p("xorb_roundtrip", 250_000, 40_000)],
        "C08" => vec![p("xorb_validate", 250_000, 150_000)],
        "C09" => vec![p("sorted_search", 120_000, 1_024)],
        _ => vec![],
    }
}
