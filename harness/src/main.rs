use xv::{engine, props, util};

#[global_allocator]
static GLOBAL: util::alloc_guard::CountingAlloc = util::alloc_guard::CountingAlloc;

use std::path::PathBuf;

use engine::{Ctx, ReplayFile, Tier};

struct PropDef {
    id: &'static str,
    level: &'static str,
    rule: &'static str,
    assumptions: &'static [&'static str],
    run: fn(&Ctx),
}

fn props() -> Vec<PropDef> {
    macro_rules! p {
        ($id:literal, $m:ident, $lvl:literal) => {
            PropDef { id: $id, level: $lvl, rule: props::$m::RULE, assumptions: props::$m::ASSUMPTIONS, run: props::$m::run }
        };
    }
    vec![p!("C01", c01, "exploration"), p!("C02", c02, "exploration"), p!("C03", c03, "exploration"), p!("C04", c04, "exploration"), p!("C05", c05, "exploration"), p!("C06", c06, "exploration"), p!("C07", c07, "exploration"), p!("C08", c08, "exploration"), p!("C09", c09, "exploration"), p!("C10", c10, "exploration"), p!("C11", c11, "exploration"), p!("C12", c12, "exploration"), p!("C13", c13, "exploration"), p!("C14", c14, "exploration"), p!("C15", c15, "exploration"), p!("C16", c16, "fault_enumeration"), p!("C17", c17, "exploration"), p!("C18", c18, "exploration"), p!("C19", c19, "fault_enumeration"), p!("C20", c20, "exploration")]
}

fn usage() -> ! {
    eprintln!("usage: xv <ID> [--tier quick|thorough] [--seed N] [--replay FILE] [--worker SPEC --out FILE]");
    std::process::exit(2);
}

fn main() {
    let args: Vec<String> = std::env::args().collect();
    if args.len() < 2 {
        usage();
    }
    let id = args[1].clone();
    let mut tier = match std::env::var("VERIF_TIER").as_deref() {
        Ok("thorough") => Tier::Thorough,
        _ => Tier::Quick,
    };
    let mut seed: u64 = std::env::var("VERIF_SEED").ok().and_then(|s| s.trim().parse::<i64>().ok()).map(|v| v as u64).unwrap_or(0);
    let mut replay: Option<PathBuf> = None;
    let mut worker: Option<PathBuf> = None;
    let mut out: Option<PathBuf> = None;
    let mut i = 2;
    while i < args.len() {
        match args[i].as_str() {
            "--tier" => {
                i += 1;
                tier = match args.get(i).map(|s| s.as_str()) {
                    Some("quick") => Tier::Quick,
                    Some("thorough") => Tier::Thorough,
                    _ => usage(),
                };
            },
            "--seed" => {
                i += 1;
                seed = args.get(i).and_then(|s| s.parse::<i64>().ok()).map(|v| v as u64).unwrap_or_else(|| usage());
            },
            "--replay" => {
                i += 1;
                replay = Some(PathBuf::from(args.get(i).unwrap_or_else(|| usage())));
            },
            "--worker" => {
                i += 1;
                worker = Some(PathBuf::from(args.get(i).unwrap_or_else(|| usage())));
            },
            "--gen-corpus" => {
                // xv <anything> --gen-corpus <target> <dir>: small valid seed inputs for a fuzz target
                let target = args.get(i + 1).cloned().unwrap_or_else(|| usage());
                let dir = PathBuf::from(args.get(i + 2).cloned().unwrap_or_else(|| usage()));
                gen_corpus(&target, &dir);
                return;
            },
            "--crash-child" => {
                i += 1;
                engine::install_quiet_panic_hook();
                props::c19::child(std::path::Path::new(args.get(i).unwrap_or_else(|| usage())));
                return;
            },
            "--out" => {
                i += 1;
                out = Some(PathBuf::from(args.get(i).unwrap_or_else(|| usage())));
            },
            _ => usage(),
        }
        i += 1;
    }
    let defs = props();
    let Some(def) = defs.iter().find(|d| d.id == id) else {
        eprintln!("unknown property {id}");
        std::process::exit(2);
    };
    engine::install_quiet_panic_hook();

    // replay of a configuration-bound case: re-exec with that configuration
    if let Some(p) = &replay {
        let s = std::fs::read_to_string(p).unwrap_or_else(|e| {
            eprintln!("cannot read replay {}: {e}", p.display());
            std::process::exit(2)
        });
        let rf: ReplayFile = serde_json::from_str(&s).unwrap_or_else(|e| {
            eprintln!("cannot parse replay {}: {e}", p.display());
            std::process::exit(2)
        });
        if std::env::var_os("XV_REPLAY_CHILD").is_none() {
            let mut cmd = std::process::Command::new(std::env::current_exe().unwrap());
            cmd.args(&args[1..]).env("XV_REPLAY_CHILD", "1");
            for (k, _) in std::env::vars() {
                if k.starts_with("HF_XET_") {
                    cmd.env_remove(k);
                }
            }
            for (k, v) in &rf.env {
                cmd.env(k, v);
            }
            let st = cmd.status().expect("re-exec");
            match st.code() {
                Some(c) if c == 0 || c == 1 || c == 2 => std::process::exit(c),
                other => {
                    // the code under test killed the process (abort, allocation cap, stack overflow …)
                    println!("VIOLATION property={} replay={}", id, p.display());
                    println!("  the replayed case killed the process ({:?} / {:?})", other, st);
                    std::process::exit(1);
                },
            }
        }
        let mut ctx = Ctx::new(&id, tier, seed, def.level);
        ctx.replay = Some(rf);
        (def.run)(&ctx);
        let code = ctx.finish(def.rule, def.assumptions);
        std::process::exit(code);
    }

    let mut ctx = Ctx::new(&id, tier, seed, def.level);
    if let Some(w) = &worker {
        ctx.is_worker = true;
        let spec = std::fs::read_to_string(w).ok().and_then(|s| serde_json::from_str(&s).ok()).unwrap_or(serde_json::Value::Null);
        ctx.worker_spec = Some(spec);
        (def.run)(&ctx);
        let st = ctx.stats.lock().unwrap().clone();
        if let Some(o) = out {
            std::fs::write(&o, serde_json::to_string(&st).unwrap()).expect("write worker output");
        }
        std::process::exit(0);
    }
    (def.run)(&ctx);
    let code = ctx.finish(def.rule, def.assumptions);
    std::process::exit(code);
}

fn gen_corpus(target: &str, dir: &std::path::Path) {
    use xv::engine::{draw, Sm64};
    std::fs::create_dir_all(dir).expect("corpus dir");
    match target {
        "xorb_validate" => {
            for k in 0..24u64 {
                let spec = draw(&xv::gen::xorb::xorb_spec_strategy(5, false), 1000 + k);
                if let Ok(b) = xv::gen::xorb::build(&spec) {
                    if b.bytes.len() > 200_000 {
                        continue;
                    }
                    // own hash + selector 0, then the object; and a variant without footer
                    let mut v = b.hash.to_vec();
                    v.push(0);
                    v.extend_from_slice(&b.bytes);
                    std::fs::write(dir.join(format!("valid-{k}")), &v).unwrap();
                    let parsed = xv::refs::xorb::parse(&b.bytes).unwrap();
                    let mut w = b.hash.to_vec();
                    w.push(1);
                    w.extend_from_slice(&b.bytes[..parsed.content_end]);
                    std::fs::write(dir.join(format!("nofooter-{k}")), &w).unwrap();
                }
            }
        },
        "xorb_roundtrip" | "chunker_diff" | "hash_text" | "sorted_search" => {
            for k in 0..16u64 {
                let n = 16 + (k * 997 % 6000) as usize;
                let mut v = vec![(k % 4) as u8, (k % 9) as u8, 3];
                v.extend(Sm64(k).bytes(n));
                if k % 3 == 0 {
                    // low-entropy variant
                    for b in v.iter_mut().skip(8) {
                        *b &= 0x11;
                    }
                }
                std::fs::write(dir.join(format!("seed-{k}")), &v).unwrap();
            }
            if target == "hash_text" {
                std::fs::write(dir.join("hex"), "00112233445566778899aabbccddeeff00112233445566778899AABBCCDDEEFF").unwrap();
            }
        },
        _ => {},
    }
}
