//! Generated xorbs: chunk contents from byte recipes, compression scheme, serialized with the
//! code under test (CasObject::serialize) – the valid-input generator for C07/C08.

use std::io::Cursor;

use cas_object::{CasObject, CompressionScheme};
use merklehash::MerkleHash;
use proptest::prelude::*;
use serde::{Deserialize, Serialize};

use super::bytes::{bytes_strategy, Bytes};
use crate::refs::merkle::{self as rm, H};

#[derive(Clone, Debug, Serialize, Deserialize)]
pub struct XorbSpec {
    pub chunks: Vec<Bytes>,
    /// 0 none, 1 lz4, 2 bg4+lz4, 3 automatic
    pub scheme: u8,
}

pub fn scheme_of(k: u8) -> Option<CompressionScheme> {
    match k % 4 {
        0 => Some(CompressionScheme::None),
        1 => Some(CompressionScheme::LZ4),
        2 => Some(CompressionScheme::ByteGrouping4LZ4),
        _ => None,
    }
}

pub fn scheme_name(k: u8) -> &'static str {
    ["none", "lz4", "bg4-lz4", "auto"][k as usize % 4]
}

fn chunk_bytes() -> BoxedStrategy<Bytes> {
    prop_oneof![
        5 => bytes_strategy(1, 64),
        6 => bytes_strategy(1, 2_000),
        2 => bytes_strategy(1, 40_000),
        1 => bytes_strategy(100_000, 131_072),
        1 => bytes_strategy(131_069, 131_072),
    ]
    .boxed()
}

pub fn xorb_spec_strategy(max_small: usize, allow_large: bool) -> impl Strategy<Value = XorbSpec> {
    let n = if allow_large {
        prop_oneof![6 => 1usize..=max_small, 3 => 1usize..=40, 1 => 200usize..1200].boxed()
    } else {
        prop_oneof![6 => 1usize..=max_small, 2 => 1usize..=40].boxed()
    };
    (n.prop_flat_map(|n| proptest::collection::vec(chunk_bytes(), n)), 0u8..4).prop_map(|(chunks, scheme)| XorbSpec { chunks, scheme })
}

pub struct BuiltXorb {
    pub chunk_data: Vec<Vec<u8>>,
    pub data: Vec<u8>,
    pub hashes: Vec<H>,
    /// unpacked end offsets
    pub boundaries: Vec<u32>,
    pub hash: H,
    pub bytes: Vec<u8>,
    pub cas: CasObject,
}

pub fn build(spec: &XorbSpec) -> Result<BuiltXorb, String> {
    let mut chunk_data: Vec<Vec<u8>> = spec.chunks.iter().map(|b| b.expand()).collect();
    // the multi-hundred-chunk shapes keep the object small
    if chunk_data.len() > 100 {
        for c in chunk_data.iter_mut() {
            c.truncate(4000.min(c.len()).max(1));
        }
    }
    let hashes: Vec<H> = chunk_data.iter().map(|d| rm::chunk_hash(d)).collect();
    let mut data = Vec::new();
    let mut boundaries = Vec::new();
    for d in &chunk_data {
        data.extend_from_slice(d);
        boundaries.push(data.len() as u32);
    }
    let leaves: Vec<(H, u64)> = chunk_data.iter().zip(hashes.iter()).map(|(d, h)| (*h, d.len() as u64)).collect();
    let hash = rm::xorb_hash(&leaves);
    let cb: Vec<(MerkleHash, u32)> = hashes.iter().zip(boundaries.iter()).map(|(h, b)| (MerkleHash::from(h), *b)).collect();
    let mut w = Cursor::new(Vec::new());
    let (cas, n) =
        CasObject::serialize(&mut w, &MerkleHash::from(&hash), &data, &cb, scheme_of(spec.scheme)).map_err(|e| format!("[sig:xorb-serialize-err] {e}"))?;
    let bytes = w.into_inner();
    if n != bytes.len() {
        return Err(format!("[sig:xorb-serialize-count] serialize reports {n} bytes written, wrote {}", bytes.len()));
    }
    Ok(BuiltXorb { chunk_data, data, hashes, boundaries, hash, bytes, cas })
}
