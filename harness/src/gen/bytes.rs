//! Byte-stream recipes: a generated, serialisable description that expands deterministically
//! into bytes. Small streams are carried literally (so they shrink byte-wise), large ones as
//! (class, seed, length).

use proptest::prelude::*;
use serde::{Deserialize, Serialize};

use crate::engine::Sm64;

#[derive(Clone, Debug, Serialize, Deserialize, PartialEq)]
pub enum Bytes {
    /// literal bytes
    Raw(Vec<u8>),
    /// incompressible
    Random { seed: u64, len: u32 },
    /// one byte value repeated (forces maximum-size chunks)
    Const { byte: u8, len: u32 },
    /// a random block of `period` bytes repeated
    Periodic { seed: u64, period: u16, len: u32 },
    /// random sequence over an alphabet of k symbols (low entropy)
    Alphabet { seed: u64, k: u8, len: u32 },
    /// little-endian f32 values of a slowly varying signal (BG4-friendly)
    Floats { seed: u64, len: u32 },
    /// text-like
    Text { seed: u64, len: u32 },
}

impl Bytes {
    pub fn len(&self) -> usize {
        match self {
            Bytes::Raw(v) => v.len(),
            Bytes::Random { len, .. }
            | Bytes::Const { len, .. }
            | Bytes::Periodic { len, .. }
            | Bytes::Alphabet { len, .. }
            | Bytes::Floats { len, .. }
            | Bytes::Text { len, .. } => *len as usize,
        }
    }
    pub fn class(&self) -> &'static str {
        match self {
            Bytes::Raw(_) => "raw",
            Bytes::Random { .. } => "random",
            Bytes::Const { .. } => "const",
            Bytes::Periodic { .. } => "periodic",
            Bytes::Alphabet { .. } => "alphabet",
            Bytes::Floats { .. } => "floats",
            Bytes::Text { .. } => "text",
        }
    }
    pub fn expand(&self) -> Vec<u8> {
        match self {
            Bytes::Raw(v) => v.clone(),
            Bytes::Random { seed, len } => Sm64(*seed).bytes(*len as usize),
            Bytes::Const { byte, len } => vec![*byte; *len as usize],
            Bytes::Periodic { seed, period, len } => {
                let p = (*period).max(1) as usize;
                let block = Sm64(*seed).bytes(p);
                (0..*len as usize).map(|i| block[i % p]).collect()
            },
            Bytes::Alphabet { seed, k, len } => {
                let k = (*k).max(1) as u64;
                let mut r = Sm64(*seed);
                let syms: Vec<u8> = (0..k).map(|_| r.next() as u8).collect();
                let mut out = Vec::with_capacity(*len as usize);
                while out.len() < *len as usize {
                    let mut v = r.next();
                    for _ in 0..8 {
                        if out.len() == *len as usize {
                            break;
                        }
                        out.push(syms[(v % k) as usize]);
                        v /= k.max(2);
                    }
                }
                out
            },
            Bytes::Floats { seed, len } => {
                let mut r = Sm64(*seed);
                let mut x = (r.next() % 1000) as f32 / 10.0;
                let mut out = Vec::with_capacity(*len as usize + 4);
                while out.len() < *len as usize {
                    x += ((r.next() % 2001) as f32 - 1000.0) / 5000.0;
                    out.extend_from_slice(&x.to_le_bytes());
                }
                out.truncate(*len as usize);
                out
            },
            Bytes::Text { seed, len } => {
                const WORDS: [&str; 16] = [
                    "the ", "xet ", "chunk ", "hash ", "shard ", "of ", "and ", "merkle ", "data ", "file ", "a ", "to ", "in ", "dedup ", "xorb\n",
                    "cache ",
                ];
                let mut r = Sm64(*seed);
                let mut out = Vec::with_capacity(*len as usize + 8);
                while out.len() < *len as usize {
                    out.extend_from_slice(WORDS[(r.next() % 16) as usize].as_bytes());
                }
                out.truncate(*len as usize);
                out
            },
        }
    }
}

/// Strategy over byte recipes with length in [lo, hi].
pub fn bytes_strategy(lo: u32, hi: u32) -> BoxedStrategy<Bytes> {
    let len = move || lo..=hi;
    let raw_hi = hi.min(300) as usize;
    let raw_lo = (lo as usize).min(raw_hi);
    prop_oneof![
        3 => (any::<u64>(), len()).prop_map(|(seed, len)| Bytes::Random { seed, len }),
        1 => (any::<u8>(), len()).prop_map(|(byte, len)| Bytes::Const { byte, len }),
        2 => (any::<u64>(), 1u16..=300, len()).prop_map(|(seed, period, len)| Bytes::Periodic { seed, period, len }),
        2 => (any::<u64>(), 1u8..=6, len()).prop_map(|(seed, k, len)| Bytes::Alphabet { seed, k, len }),
        1 => (any::<u64>(), len()).prop_map(|(seed, len)| Bytes::Floats { seed, len }),
        1 => (any::<u64>(), len()).prop_map(|(seed, len)| Bytes::Text { seed, len }),
        1 => proptest::collection::vec(any::<u8>(), raw_lo..=raw_hi).prop_map(Bytes::Raw),
    ]
    .boxed()
}

/// Concatenation of several recipes
pub fn expand_all(parts: &[Bytes]) -> Vec<u8> {
    let mut v = Vec::new();
    for p in parts {
        v.extend_from_slice(&p.expand());
    }
    v
}
