pub mod bytes;
pub mod xorb;
pub mod shard;

use proptest::prelude::*;

/// Boundary-biased numbers in 0..=max: small values, 2^k - 1 / 2^k / 2^k + 1 for every width the code
/// under test stores counts, lengths and indices in (u8, u16, u24, u32, ...), and uniform values.
/// Arithmetic slips (a truncating cast, a wrapping counter, an off-by-one on a limit) live on these
/// values and a uniform draw from a large range essentially never produces them.
pub fn edge_u64(max: u64) -> BoxedStrategy<u64> {
    prop_oneof![
        2 => (0u64..=max.min(20)),
        5 => (1u32..=(64 - max.leading_zeros()).clamp(1, 63), 0u8..3).prop_map(move |(k, d)| ((1u128 << k) as u64).wrapping_add(d as u64).wrapping_sub(1).min(max)),
        3 => (0u64..=max),
    ]
    .boxed()
}

pub fn edge_u32(max: u32) -> BoxedStrategy<u32> {
    prop_oneof![
        2 => (0u32..=max.min(20)),
        5 => (1u32..=(32 - max.leading_zeros()).clamp(1, 32), 0u8..3).prop_map(move |(k, d)| (((1u64 << k) + d as u64 - 1).min(max as u64)) as u32),
        3 => (0u32..=max),
    ]
    .boxed()
}
