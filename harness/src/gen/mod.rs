pub mod bytes;
pub mod xorb;
