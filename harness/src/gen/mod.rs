pub mod bytes;
