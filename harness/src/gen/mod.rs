pub mod bytes;
pub mod xorb;
pub mod shard;
