//! Generated shard contents: sets of distinct-keyed file and xorb records with engineered
//! truncated-prefix structure. The *model* is the pair of maps; the in-memory shard is built from it.

use std::collections::BTreeMap;

use mdb_shard::cas_structs::{CASChunkSequenceEntry, CASChunkSequenceHeader, MDBCASInfo};
use mdb_shard::file_structs::{FileDataSequenceEntry, FileDataSequenceHeader, FileMetadataExt, FileVerificationEntry, MDBFileInfo};
use mdb_shard::shard_in_memory::MDBInMemoryShard;
use merklehash::MerkleHash;
use proptest::prelude::*;
use serde::{Deserialize, Serialize};

use crate::engine::Sm64;
use crate::refs::merkle::H;

/// A 256-bit value whose first u64 (the truncated lookup key) is engineered.
#[derive(Clone, Debug, Serialize, Deserialize, PartialEq)]
pub struct HashSpec {
    /// 0: 0, 1: 1, 2: MAX-1, 3: MAX, 4: clustered window, 5: uniform, 6: one of a few shared prefixes
    pub kind: u8,
    pub a: u64,
    pub rest: u64,
}

pub fn hash_spec() -> impl Strategy<Value = HashSpec> {
    (prop_oneof![1 => Just(0u8), 1 => Just(1u8), 1 => Just(2u8), 1 => Just(3u8), 6 => Just(4u8), 12 => Just(5u8), 5 => Just(6u8)], any::<u64>(), any::<u64>())
        .prop_map(|(kind, a, rest)| HashSpec { kind, a, rest })
}

impl HashSpec {
    pub fn prefix(&self, salt: u64) -> u64 {
        match self.kind {
            0 => 0,
            1 => 1,
            2 => u64::MAX - 1,
            3 => u64::MAX,
            4 => 0x4000_0000_0000_0000u64.wrapping_add(salt & 0xff00).wrapping_add(self.a % 40),
            6 => Sm64(salt ^ (self.a % 5)).next(),
            _ => self.a,
        }
    }
    pub fn hash(&self, salt: u64) -> H {
        let mut h = [0u8; 32];
        Sm64(self.rest ^ 0x5151).fill(&mut h);
        h[..8].copy_from_slice(&self.prefix(salt).to_le_bytes());
        if h == [0xffu8; 32] {
            h[31] = 0; // all-ones is the bookend sentinel
        }
        if h == [0u8; 32] {
            h[31] = 1; // zero is the reserved empty-file hash
        }
        h
    }
}

#[derive(Clone, Debug, Serialize, Deserialize)]
pub struct FileSpec {
    pub hash: HashSpec,
    pub n_segments: u8,
    pub verification: bool,
    pub metadata_ext: bool,
    pub seed: u64,
    /// every segment spans 60-64 MiB of a xorb (with >= 70 segments the file exceeds 4 GiB, as model weights do)
    #[serde(default)]
    pub big_segments: bool,
}

#[derive(Clone, Debug, Serialize, Deserialize)]
pub struct XorbRec {
    pub hash: HashSpec,
    pub chunks: Vec<(HashSpec, u32)>,
    pub bytes_on_disk: u32,
}

#[derive(Clone, Debug, Serialize, Deserialize)]
pub struct ShardSpec {
    pub salt: u64,
    pub files: Vec<FileSpec>,
    pub xorbs: Vec<XorbRec>,
    /// indices (into xorbs) whose chunk lists are additionally copied - whole, or a run of them followed by other
    /// chunks - as a new xorb (same chunks in several xorbs)
    pub dup_xorbs: Vec<u16>,
}

pub fn file_spec() -> impl Strategy<Value = FileSpec> {
    (hash_spec(), prop_oneof![4 => Just(0u8), 24 => 1u8..5, 8 => 5u8..40, 1 => 70u8..130], any::<bool>(), any::<bool>(), any::<u64>(), proptest::bool::weighted(0.15))
        .prop_map(|(hash, n_segments, verification, metadata_ext, seed, big)| FileSpec { hash, n_segments, verification, metadata_ext, seed, big_segments: big || n_segments >= 70 })
}

pub fn xorb_rec(max_chunks: usize) -> impl Strategy<Value = XorbRec> {
    (
        hash_spec(),
        prop_oneof![1 => Just(0usize), 6 => 1usize..6, 3 => 6usize..=max_chunks]
            .prop_flat_map(|n| proptest::collection::vec((hash_spec(), 1u32..200_000), n)),
        // on-disk size up to the u32 range and (for one xorb in seven) a total of the chunk lengths of up to
        // 2^30, so that shard-wide byte totals cross 2^32 with a handful of xorbs. Not more per xorb: a xorb's
        // own total is a u32 field, and the duplicated-run xorbs built in materialize() join two chunk lists.
        prop_oneof![8 => (0u32..10_000_000), 2 => super::edge_u32(u32::MAX)],
        proptest::option::weighted(0.15, super::edge_u32(1 << 30)),
    )
        .prop_map(|(hash, mut chunks, bytes_on_disk, big_total)| {
            if let (Some(t), n) = (big_total, chunks.len() as u32) {
                if n > 0 {
                    for c in chunks.iter_mut() {
                        c.1 = (t / n).max(1);
                    }
                }
            }
            XorbRec { hash, chunks, bytes_on_disk }
        })
}

pub fn shard_spec(max_files_big: usize, max_xorbs_big: usize) -> impl Strategy<Value = ShardSpec> {
    let nf = prop_oneof![1 => Just(0usize), 5 => 0usize..8, 3 => 8usize..60, 2 => 250usize..=max_files_big.max(251)];
    let nx = prop_oneof![1 => Just(0usize), 5 => 0usize..8, 3 => 8usize..60, 1 => 250usize..=max_xorbs_big.max(251)];
    (any::<u64>(), nf, nx).prop_flat_map(|(salt, nf, nx)| {
        (
            Just(salt),
            proptest::collection::vec(file_spec(), nf),
            proptest::collection::vec(xorb_rec(if nx > 100 { 8 } else { 40 }), nx),
            proptest::collection::vec(any::<u16>(), 0..5),
        )
            .prop_map(|(salt, files, xorbs, dup_xorbs)| ShardSpec { salt, files, xorbs, dup_xorbs })
    })
}

pub fn mh(h: &H) -> MerkleHash {
    MerkleHash::from(h)
}

/// model key: the hash as four little-endian words (the order shard tables are sorted in)
pub type K = [u64; 4];
pub fn key(h: &H) -> K {
    let mut k = [0u64; 4];
    for i in 0..4 {
        k[i] = u64::from_le_bytes(h[i * 8..i * 8 + 8].try_into().unwrap());
    }
    k
}
pub fn unkey(k: &K) -> H {
    let mut h = [0u8; 32];
    for i in 0..4 {
        h[i * 8..i * 8 + 8].copy_from_slice(&k[i].to_le_bytes());
    }
    h
}

#[derive(Clone, Debug, Default)]
pub struct ShardModel {
    pub files: BTreeMap<K, MDBFileInfo>,
    pub xorbs: BTreeMap<K, MDBCASInfo>,
}

impl ShardModel {
    pub fn to_in_memory(&self) -> MDBInMemoryShard {
        let mut s = MDBInMemoryShard::default();
        for x in self.xorbs.values() {
            s.add_cas_block(x.clone()).unwrap();
        }
        for f in self.files.values() {
            s.add_file_reconstruction_info(f.clone()).unwrap();
        }
        s
    }
    pub fn n_chunks(&self) -> usize {
        self.xorbs.values().map(|x| x.chunks.len()).sum()
    }
}

/// Build the model from a spec: duplicate full keys are dropped (contents are sets) and at most
/// seven records may share a truncated prefix (the format's documented limit for files / xorbs).
pub fn materialize(spec: &ShardSpec) -> ShardModel {
    let mut m = ShardModel::default();
    let mut prefix_count: BTreeMap<u64, usize> = BTreeMap::new();
    let mut all_xorbs: Vec<XorbRec> = spec.xorbs.clone();
    for (k, d) in spec.dup_xorbs.iter().enumerate() {
        if spec.xorbs.is_empty() {
            break;
        }
        let src = &spec.xorbs[crate::engine::idx(*d, spec.xorbs.len())];
        // the same chunks in several xorbs: an identical list, or a list that shares a run with the
        // source and then continues differently (so that the longest match depends on the xorb)
        let n = src.chunks.len();
        let other = &spec.xorbs[(crate::engine::idx(*d, spec.xorbs.len()) + 1 + k) % spec.xorbs.len()];
        let chunks = match (*d as usize + k) % 3 {
            1 if n >= 2 => {
                let a = 1 + (*d as usize >> 3) % (n - 1);
                let mut c = src.chunks[a..].to_vec();
                c.extend(other.chunks.iter().take(3).cloned());
                c
            },
            2 if n >= 2 => {
                let b = 1 + (*d as usize >> 3) % (n - 1);
                let mut c = src.chunks[..b].to_vec();
                c.push((HashSpec { kind: 5, a: Sm64(spec.salt ^ 0xd0 ^ k as u64).next(), rest: *d as u64 }, 1 + (*d as u32 % 5000)));
                c.extend(src.chunks[b..].iter().take(2).cloned());
                c
            },
            _ => src.chunks.clone(),
        };
        all_xorbs.push(XorbRec { hash: HashSpec { kind: 5, a: Sm64(spec.salt ^ k as u64).next(), rest: src.hash.rest ^ 0x77 }, chunks, bytes_on_disk: src.bytes_on_disk });
    }
    for x in &all_xorbs {
        let h = x.hash.hash(spec.salt);
        let p = u64::from_le_bytes(h[..8].try_into().unwrap());
        if m.xorbs.contains_key(&key(&h)) || *prefix_count.get(&p).unwrap_or(&0) >= 7 {
            continue;
        }
        *prefix_count.entry(p).or_default() += 1;
        let mut pos = 0u32;
        let mut chunks = Vec::new();
        for (hs, len) in &x.chunks {
            chunks.push(CASChunkSequenceEntry::new(mh(&hs.hash(spec.salt ^ 0xc0ffee)), *len, pos));
            pos = pos.wrapping_add(*len);
        }
        let mut meta = CASChunkSequenceHeader::new(mh(&h), chunks.len() as u32, pos);
        meta.num_bytes_on_disk = x.bytes_on_disk;
        m.xorbs.insert(key(&h), MDBCASInfo { metadata: meta, chunks });
    }
    let mut fprefix: BTreeMap<u64, usize> = BTreeMap::new();
    let xorb_keys: Vec<K> = m.xorbs.keys().cloned().collect();
    for f in &spec.files {
        let h = f.hash.hash(spec.salt ^ 0xf11e);
        let p = u64::from_le_bytes(h[..8].try_into().unwrap());
        if m.files.contains_key(&key(&h)) || *fprefix.get(&p).unwrap_or(&0) >= 7 {
            continue;
        }
        *fprefix.entry(p).or_default() += 1;
        let mut r = Sm64(f.seed);
        let n = f.n_segments as usize;
        let mut segments = Vec::new();
        let mut verification = Vec::new();
        for _ in 0..n {
            // reference an existing xorb when there is one, else a free-standing hash
            let (xh, nchunks) = if !xorb_keys.is_empty() && r.next() % 4 != 0 {
                let k = &xorb_keys[(r.next() % xorb_keys.len() as u64) as usize];
                (unkey(k), m.xorbs[k].chunks.len() as u32)
            } else {
                let mut hh = [0u8; 32];
                r.fill(&mut hh);
                hh[0] |= 1;
                (hh, 1 + (r.next() % 50) as u32)
            };
            let start = if nchunks == 0 { 0 } else { (r.next() % nchunks as u64) as u32 };
            let end = if nchunks == 0 { 0 } else { start + 1 + (r.next() % (nchunks - start) as u64) as u32 };
            let seg_bytes = if f.big_segments { (60u32 << 20) + (r.next() % (4 << 20)) as u32 } else { (r.next() % 5_000_000) as u32 };
            segments.push(FileDataSequenceEntry::new(mh(&xh), seg_bytes, start, end));
            let mut vh = [0u8; 32];
            r.fill(&mut vh);
            verification.push(FileVerificationEntry::new(mh(&vh)));
        }
        let mut sha = [0u8; 32];
        r.fill(&mut sha);
        let info = MDBFileInfo {
            metadata: FileDataSequenceHeader::new(mh(&h), n as u32, f.verification, f.metadata_ext),
            segments,
            verification: if f.verification { verification } else { vec![] },
            metadata_ext: if f.metadata_ext { Some(FileMetadataExt::new(mh(&sha))) } else { None },
        };
        m.files.insert(key(&h), info);
    }
    m
}

pub fn serialize(model: &ShardModel) -> Result<(Vec<u8>, mdb_shard::MDBShardInfo, MDBInMemoryShard), String> {
    let mem = model.to_in_memory();
    let mut buf = Vec::new();
    let info = mdb_shard::MDBShardInfo::serialize_from(&mut buf, &mem).map_err(|e| format!("[sig:shard-serialize-err] {e}"))?;
    Ok((buf, info, mem))
}
