//! Chunk-cache harness shared by C12 and C13: virtual xorb model (every chunk of key k is a pure
//! function of (k, i), so any hit is checkable without history), operations, and the schedule
//! driver on top of the guarded controller hook (exactly one registered thread runs at a time; an
//! interleaving is a Vec<u8> of choices that shrinks and replays deterministically).

use std::path::{Path, PathBuf};
use std::sync::{Arc, Mutex};

use base64::Engine;
use cas_types::{ChunkRange, Key};
use chunk_cache::{CacheConfig, ChunkCache, DiskCache};
use merklehash::MerkleHash;
use serde::{Deserialize, Serialize};
use utils::verif_hooks::Controller;

use crate::engine::Sm64;

pub const N_CHUNKS: u32 = 14;
pub const B64: base64::engine::GeneralPurpose = base64::engine::general_purpose::URL_SAFE;

pub fn key_of(k: u8) -> Key {
    let mut h = [0u8; 32];
    Sm64(0xCAC4E + k as u64).fill(&mut h);
    Key { prefix: "default".to_string(), hash: MerkleHash::from(&h) }
}

pub fn chunk_len(k: u8, i: u32) -> u32 {
    1 + (Sm64(k as u64 * 1000 + i as u64).next() % 48) as u32
}

pub fn chunk_bytes(k: u8, i: u32) -> Vec<u8> {
    Sm64(0xDA7A ^ (k as u64) << 32 ^ i as u64).bytes(chunk_len(k, i) as usize)
}

/// (offsets starting at 0, data) of chunks [a, b) of key k
pub fn range_data(k: u8, a: u32, b: u32) -> (Vec<u32>, Vec<u8>) {
    let mut offsets = vec![0u32];
    let mut data = Vec::new();
    for i in a..b {
        data.extend_from_slice(&chunk_bytes(k, i));
        offsets.push(data.len() as u32);
    }
    (offsets, data)
}

/// on-disk size of the cache file holding chunks [a, b)
pub fn item_len(k: u8, a: u32, b: u32) -> u64 {
    let (o, d) = range_data(k, a, b);
    (4 * (o.len() + 1) + d.len()) as u64
}

#[derive(Clone, Debug, Serialize, Deserialize, PartialEq)]
pub enum Op {
    Put { key: u8, a: u8, len: u8 },
    Get { key: u8, a: u8, len: u8 },
}

impl Op {
    pub fn range(&self) -> (u8, u32, u32) {
        let (key, a, len) = match self {
            Op::Put { key, a, len } | Op::Get { key, a, len } => (*key, *a, *len),
        };
        let a = a as u32 % N_CHUNKS;
        let b = (a + 1 + len as u32 % (N_CHUNKS - a)).min(N_CHUNKS);
        (key % 4, a, b)
    }
}

/// Result of one op against the hit oracle.
/// `capacity` = Some(c) additionally asserts C13's bound after a successful put.
pub fn apply(cache: &DiskCache, op: &Op, capacity: Option<u64>) -> Result<OpOutcome, String> {
    apply_ex(cache, op, capacity, true)
}

/// `check_hits` = false: a hit is only counted, its content is not compared (used after an entry was
/// forged - renamed under a name that keeps its length / checksum identity but claims another range -
/// which the on-disk format cannot tell from a genuine entry; panics still count).
pub fn apply_ex(cache: &DiskCache, op: &Op, capacity: Option<u64>, check_hits: bool) -> Result<OpOutcome, String> {
    let (k, a, b) = op.range();
    let key = key_of(k);
    let range = ChunkRange { start: a, end: b };
    match op {
        Op::Put { .. } => {
            let (o, d) = range_data(k, a, b);
            match cache.put(&key, &range, &o, &d) {
                Ok(()) => {
                    if let Some(capacity) = capacity {
                        let tb = cache.total_bytes().map_err(|e| format!("total_bytes: {e}"))?;
                        if tb > capacity {
                            return Err(format!("[sig:c13-over-capacity] after a successful put the byte total {tb} exceeds the capacity {capacity}"));
                        }
                    }
                    Ok(OpOutcome::PutOk)
                },
                Err(e) => Ok(OpOutcome::PutErr(e.to_string())),
            }
        },
        Op::Get { .. } => match cache.get(&key, &range) {
            Ok(None) => Ok(OpOutcome::Miss),
            Err(e) => Ok(OpOutcome::GetErr(e.to_string())),
            Ok(Some(_)) if !check_hits => Ok(OpOutcome::Hit),
            Ok(Some(r)) => {
                let (o, d) = range_data(k, a, b);
                if r.range != range {
                    return Err(format!("[sig:c12-hit-range] hit for key {k} [{a},{b}) reports range {:?}", r.range));
                }
                if r.data[..] != d[..] {
                    return Err(format!("[sig:c12-hit-data] hit for key {k} chunks [{a},{b}) returned {} bytes that differ from what was stored ({} bytes)", r.data.len(), d.len()));
                }
                if r.offsets[..] != o[..] {
                    return Err(format!("[sig:c12-hit-offsets] hit for key {k} chunks [{a},{b}) returned offsets {:?}, stored {:?}", &r.offsets[..], o));
                }
                Ok(OpOutcome::Hit)
            },
        },
    }
}

#[derive(Clone, Debug, PartialEq)]
pub enum OpOutcome {
    PutOk,
    PutErr(String),
    Hit,
    Miss,
    GetErr(String),
}

pub fn open(dir: &Path, capacity: u64) -> Result<DiskCache, String> {
    DiskCache::initialize(&CacheConfig { cache_directory: dir.to_path_buf(), cache_size: capacity }).map_err(|e| format!("initialize: {e}"))
}

/// all regular files below the cache root: (relative dir, file name, size)
pub fn list_files(root: &Path) -> Vec<(PathBuf, String, u64)> {
    let mut out = Vec::new();
    fn walk(dir: &Path, root: &Path, out: &mut Vec<(PathBuf, String, u64)>) {
        if let Ok(rd) = std::fs::read_dir(dir) {
            for e in rd.flatten() {
                let p = e.path();
                if p.is_dir() {
                    walk(&p, root, out);
                } else if let Ok(md) = e.metadata() {
                    out.push((dir.strip_prefix(root).unwrap_or(dir).to_path_buf(), e.file_name().to_string_lossy().to_string(), md.len()));
                }
            }
        }
    }
    walk(root, root, &mut out);
    out.sort();
    out
}

pub fn key_dir_name(key: &Key) -> String {
    let mut buf = key.hash.as_bytes().to_vec();
    buf.extend_from_slice(key.prefix.as_bytes());
    B64.encode(buf)
}

pub fn item_file_name(start: u32, end: u32, len: u64, checksum: u32) -> String {
    let mut buf = Vec::new();
    buf.extend_from_slice(&start.to_le_bytes());
    buf.extend_from_slice(&end.to_le_bytes());
    buf.extend_from_slice(&len.to_le_bytes());
    buf.extend_from_slice(&checksum.to_le_bytes());
    B64.encode(buf)
}

pub fn is_item_name(name: &str) -> bool {
    B64.decode(name.as_bytes()).map(|b| b.len() == 20).unwrap_or(false)
}

/// C13 accounting oracle at a quiescent point.
pub fn check_accounting(cache: &DiskCache, root: &Path, capacity: u64, read_back: bool, racing_deletions_possible: bool) -> Result<(usize, u64), String> {
    let snap = cache.verif_snapshot().map_err(|e| format!("snapshot: {e}"))?;
    let n = cache.num_items().map_err(|e| e.to_string())?;
    let tb = cache.total_bytes().map_err(|e| e.to_string())?;
    let sum: u64 = snap.iter().map(|s| s.2).sum();
    if n != snap.len() {
        return Err(format!("[sig:c13-num-items] num_items() = {n} but {} entries are tracked", snap.len()));
    }
    if tb != sum {
        return Err(format!("[sig:c13-total-bytes] total_bytes() = {tb} but the tracked entries sum to {sum} ({} entries)", snap.len()));
    }
    // every cache file on disk belongs to a tracked entry
    let tracked: std::collections::BTreeSet<(String, String)> = snap.iter().map(|(k, r, l, c)| (key_dir_name(k), item_file_name(r.start, r.end, *l, *c))).collect();
    for (dir, name, _) in list_files(root) {
        if !is_item_name(&name) {
            continue;
        }
        let kd = dir.file_name().map(|s| s.to_string_lossy().to_string()).unwrap_or_default();
        if !tracked.contains(&(kd.clone(), name.clone())) {
            return Err(format!("[sig:c13-untracked-file] cache file {kd}/{name} on disk does not belong to a tracked entry"));
        }
    }
    if read_back {
        for (k, r, _, _) in &snap {
            let _ = cache.get(k, r);
        }
        let snap2 = cache.verif_snapshot().map_err(|e| format!("snapshot: {e}"))?;
        let tracked2: std::collections::BTreeSet<(String, String)> = snap2.iter().map(|(k, r, l, c)| (key_dir_name(k), item_file_name(r.start, r.end, *l, *c))).collect();
        let mut on_disk = std::collections::BTreeSet::new();
        let mut disk_bytes = 0u64;
        for (dir, name, size) in list_files(root) {
            if is_item_name(&name) {
                on_disk.insert((dir.file_name().map(|s| s.to_string_lossy().to_string()).unwrap_or_default(), name));
                disk_bytes += size;
            }
        }
        // An entry whose file a racing (deferred) deletion removed is dropped when a read resolves to
        // it; a read of its range may be served by another covering entry, so such entries can
        // survive the read-back. They are accepted only when deletions could race at all.
        let missing: Vec<_> = tracked2.difference(&on_disk).cloned().collect();
        let extra: Vec<_> = on_disk.difference(&tracked2).cloned().collect();
        if !extra.is_empty() {
            return Err(format!("[sig:c13-untracked-file] after read-back {} cache file(s) on disk are not tracked", extra.len()));
        }
        if !missing.is_empty() && !racing_deletions_possible {
            return Err(format!(
                "[sig:c13-readback-mismatch] after reading every entry back, {} tracked entr(y/ies) have no file on disk although no deletion could race (tracked {}, on disk {})",
                missing.len(),
                tracked2.len(),
                on_disk.len()
            ));
        }
        let missing_bytes: u64 = snap2
            .iter()
            .filter(|(k, r, l, c)| missing.contains(&(key_dir_name(k), item_file_name(r.start, r.end, *l, *c))))
            .map(|s| s.2)
            .sum();
        let tb2 = cache.total_bytes().map_err(|e| e.to_string())?;
        if tb2 - missing_bytes != disk_bytes || cache.num_items().map_err(|e| e.to_string())? != on_disk.len() + missing.len() {
            return Err(format!(
                "[sig:c13-readback-totals] after read-back total_bytes() = {tb2} / num_items {} but the files on disk hold {disk_bytes} bytes in {} files ({} entries lost their file to a racing deletion, {missing_bytes} bytes)",
                cache.num_items().unwrap_or(0),
                on_disk.len(),
                missing.len()
            ));
        }
        if tb2 > capacity {
            return Err(format!("[sig:c13-over-capacity] byte total {tb2} exceeds the capacity {capacity}"));
        }
        return Ok((on_disk.len(), disk_bytes));
    }
    Ok((n, tb))
}

pub struct BatchResult {
    pub outcomes: Vec<Vec<OpOutcome>>,
    pub trace: Vec<(usize, &'static str)>,
    /// number of options at each decision point (for exhaustive enumeration)
    pub options: Vec<usize>,
    pub violation: Option<String>,
}

/// Run `threads` op lists concurrently under a schedule. `schedule[i]` picks among the parked
/// threads at decision i (index modulo the number of parked threads); when it runs out the lowest
/// thread id is chosen. Deterministic given (ops, schedule, eviction seed).
pub fn run_batch(cache: &DiskCache, capacity: Option<u64>, threads: &[Vec<Op>], schedule: &[u8], evict_seed: u64) -> BatchResult {
    utils::verif_hooks::set_random_seed(Some(evict_seed));
    let ctrl = Controller::new(threads.len());
    let outcomes: Arc<Mutex<Vec<Vec<OpOutcome>>>> = Arc::new(Mutex::new(vec![Vec::new(); threads.len()]));
    let violation: Arc<Mutex<Option<String>>> = Arc::new(Mutex::new(None));
    let mut options = Vec::new();
    std::thread::scope(|scope| {
        for (tid, ops) in threads.iter().enumerate() {
            let ctrl = ctrl.clone();
            let cache = cache.clone();
            let outcomes = outcomes.clone();
            let violation = violation.clone();
            scope.spawn(move || {
                ctrl.register_current_thread(tid);
                for op in ops {
                    let r = std::panic::catch_unwind(std::panic::AssertUnwindSafe(|| apply(&cache, op, capacity)));
                    match r {
                        Ok(Ok(o)) => outcomes.lock().unwrap()[tid].push(o),
                        Ok(Err(v)) => {
                            violation.lock().unwrap().get_or_insert(v);
                        },
                        Err(_) => {
                            let msg = crate::engine::LAST_PANIC_GLOBAL.lock().unwrap().take().unwrap_or_else(|| "panic".into());
                            violation.lock().unwrap().get_or_insert(format!("[sig:{}] panic in cache operation {op:?}: {msg}", crate::engine::panic_signature(&msg)));
                            break;
                        },
                    }
                }
                ctrl.finish_current_thread();
            });
        }
        // driver
        let mut step = 0usize;
        loop {
            let parked = ctrl.wait_quiescent();
            if parked.is_empty() {
                break;
            }
            options.push(parked.len());
            let pick = if step < schedule.len() { schedule[step] as usize % parked.len() } else { 0 };
            step += 1;
            ctrl.grant(parked[pick].0);
        }
    });
    utils::verif_hooks::set_random_seed(None);
    let v = violation.lock().unwrap().clone();
    let o = outcomes.lock().unwrap().clone();
    BatchResult { outcomes: o, trace: ctrl.trace(), options, violation: v }
}

/// did two puts on the same key overlap in time (one ran between the other's file write and commit)?
pub fn puts_overlap(trace: &[(usize, &'static str)]) -> bool {
    for (i, (tid, label)) in trace.iter().enumerate() {
        if *label == "put:after-write" {
            // the thread is granted past "after-write" here: it commits before its next point; the
            // interesting overlap is: it *reached* the write (some earlier point) while another
            // thread had also passed its own find-match but not yet committed
            let _ = (i, tid);
        }
    }
    // simpler, sufficient criterion: between a thread's grant at "put:after-find" and its grant at
    // "put:after-commit" another thread was granted at one of its own put points
    let mut open: std::collections::BTreeMap<usize, usize> = Default::default();
    for (i, (tid, label)) in trace.iter().enumerate() {
        match *label {
            "put:after-find" => {
                open.insert(*tid, i);
            },
            "put:after-commit" => {
                if let Some(s) = open.remove(tid) {
                    if trace[s + 1..i].iter().any(|(t2, l2)| t2 != tid && l2.starts_with("put:")) {
                        return true;
                    }
                }
            },
            _ => {},
        }
    }
    false
}
