//! Reference Merkle construction, written from the published description; the three keys are
//! copied in as literals so a changed key in the code under test is a detected change.
//!
//!  chunk hash  = keyed-BLAKE3(DATA_KEY, bytes)
//!  parent      = keyed-BLAKE3(INTERNAL_KEY, for each child "{hex(hash)} : {len}\n")
//!  grouping    : scan a level left to right; a group is closed after a node when it already has
//!                >= 2 earlier children and (last u64 of the hash) % 4 == 0, or it already has 8
//!                earlier children, or the node is the last of the level
//!  root        : repeat until one node is left (a single leaf is its own root)
//!  xorb hash   = root;  file hash = keyed-BLAKE3(salt, root);  empty list -> zero hash (unsalted)
//!  range hash  = keyed-BLAKE3(VERIFICATION_KEY, concat(chunk hashes))

pub type H = [u8; 32];

pub const DATA_KEY: [u8; 32] = [
    102, 151, 245, 119, 91, 149, 80, 222, 49, 53, 203, 172, 165, 151, 24, 28, 157, 228, 33, 16, 155, 235, 43, 88, 180, 208, 176, 75, 147, 173, 242,
    41,
];
pub const INTERNAL_KEY: [u8; 32] = [
    1, 126, 197, 199, 165, 71, 41, 150, 253, 148, 102, 102, 180, 138, 2, 230, 93, 221, 83, 111, 55, 199, 109, 210, 248, 99, 82, 230, 74, 83, 113, 63,
];
pub const VERIFICATION_KEY: [u8; 32] = [
    127, 24, 87, 214, 206, 86, 237, 102, 18, 127, 249, 19, 231, 165, 195, 243, 164, 205, 38, 213, 181, 219, 73, 230, 65, 36, 152, 127, 40, 251, 148,
    195,
];

pub fn chunk_hash(data: &[u8]) -> H {
    *blake3::keyed_hash(&DATA_KEY, data).as_bytes()
}

/// text form: the 32 bytes read as four little-endian u64, each printed as 16 hex digits
pub fn hex(h: &H) -> String {
    let mut s = String::with_capacity(64);
    for w in 0..4 {
        let mut b = [0u8; 8];
        b.copy_from_slice(&h[w * 8..w * 8 + 8]);
        s.push_str(&format!("{:016x}", u64::from_le_bytes(b)));
    }
    s
}

pub fn from_hex(s: &str) -> Option<H> {
    if s.len() != 64 || !s.bytes().all(|c| c.is_ascii_hexdigit()) {
        return None;
    }
    let mut h = [0u8; 32];
    for w in 0..4 {
        let v = u64::from_str_radix(&s[w * 16..w * 16 + 16], 16).ok()?;
        h[w * 8..w * 8 + 8].copy_from_slice(&v.to_le_bytes());
    }
    Some(h)
}

fn last_word(h: &H) -> u64 {
    let mut b = [0u8; 8];
    b.copy_from_slice(&h[24..32]);
    u64::from_le_bytes(b)
}

fn parent(children: &[(H, u64)]) -> (H, u64) {
    let mut text = String::new();
    let mut total = 0u64;
    for (h, l) in children {
        text.push_str(&hex(h));
        text.push_str(" : ");
        text.push_str(&l.to_string());
        text.push('\n');
        total += *l;
    }
    (*blake3::keyed_hash(&INTERNAL_KEY, text.as_bytes()).as_bytes(), total)
}

pub fn root(leaves: &[(H, u64)]) -> Option<(H, u64)> {
    if leaves.is_empty() {
        return None;
    }
    let mut level: Vec<(H, u64)> = leaves.to_vec();
    let mut levels = 0;
    while level.len() > 1 {
        let mut next = Vec::new();
        let mut start = 0;
        for i in 0..level.len() {
            let earlier = i - start;
            if (earlier >= 2 && last_word(&level[i].0) % 4 == 0) || earlier >= 8 || i + 1 == level.len() {
                next.push(parent(&level[start..=i]));
                start = i + 1;
            }
        }
        level = next;
        levels += 1;
        assert!(levels < 200);
    }
    Some(level[0])
}

/// number of tree levels above the leaves
pub fn depth(leaves: &[(H, u64)]) -> usize {
    let mut n = 0;
    let mut level: Vec<(H, u64)> = leaves.to_vec();
    while level.len() > 1 {
        let mut next = Vec::new();
        let mut start = 0;
        for i in 0..level.len() {
            let earlier = i - start;
            if (earlier >= 2 && last_word(&level[i].0) % 4 == 0) || earlier >= 8 || i + 1 == level.len() {
                next.push(parent(&level[start..=i]));
                start = i + 1;
            }
        }
        level = next;
        n += 1;
    }
    n
}

pub fn xorb_hash(leaves: &[(H, u64)]) -> H {
    root(leaves).map(|r| r.0).unwrap_or([0u8; 32])
}

pub fn file_hash(leaves: &[(H, u64)], salt: &[u8; 32]) -> H {
    match root(leaves) {
        None => [0u8; 32],
        Some((r, _)) => *blake3::keyed_hash(salt, &r).as_bytes(),
    }
}

pub fn with_salt(h: &H, salt: &[u8; 32]) -> H {
    *blake3::keyed_hash(salt, h).as_bytes()
}

pub fn range_hash(hashes: &[H]) -> H {
    let mut buf = Vec::with_capacity(hashes.len() * 32);
    for h in hashes {
        buf.extend_from_slice(h);
    }
    *blake3::keyed_hash(&VERIFICATION_KEY, &buf).as_bytes()
}

pub fn hmac(h: &H, key: &H) -> H {
    *blake3::keyed_hash(key, h).as_bytes()
}
