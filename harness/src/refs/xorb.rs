//! Reference xorb decoder, written from the documented layout:
//!
//!   chunk   := [version u8 = 0][compressed_len u24 LE][scheme u8][uncompressed_len u24 LE][payload]
//!   scheme  := 0 none | 1 LZ4 frame | 2 byte-grouping-4 then LZ4 frame
//!   footer1 := "XETBLOB" 1 xorb_hash
//!              "XBLBHSH" 0 n:u32 n*hash
//!              "XBLBBND" 1 n:u32 n*u32(physical end offsets) n*u32(unpacked end offsets)
//!              n:u32 hashes_section_offset_from_end:u32 boundary_section_offset_from_end:u32 16 reserved
//!   footer0 := "XETBLOB" 0 xorb_hash n:u32 n*u32(physical end offsets) n*hash 16 reserved
//!   object  := chunk* [footer info_length:u32]
//!
//! LZ4 frames are decoded with lz4_flex (third-party); byte regrouping is re-implemented here.

use super::merkle::{self, H};

pub const IDENT: &[u8; 7] = b"XETBLOB";
pub const IDENT_HASHES: &[u8; 7] = b"XBLBHSH";
pub const IDENT_BOUNDS: &[u8; 7] = b"XBLBBND";
pub const MAX_CHUNK: usize = 128 * 1024;

#[derive(Clone, Debug, PartialEq)]
pub struct RefChunk {
    pub start: usize,
    pub end: usize, // physical end offset (header + payload)
    pub scheme: u8,
    pub data: Vec<u8>,
}

pub fn u24(b: &[u8]) -> usize {
    b[0] as usize | (b[1] as usize) << 8 | (b[2] as usize) << 16
}

/// de-interleave: groups g0|g1|g2|g3 laid out one after another -> original byte order
pub fn bg4_regroup(g: &[u8]) -> Vec<u8> {
    let n = g.len();
    let split = n / 4;
    let rem = n % 4;
    let l0 = split + (rem >= 1) as usize;
    let l1 = split + (rem >= 2) as usize;
    let l2 = split + (rem >= 3) as usize;
    let (g0, rest) = g.split_at(l0);
    let (g1, rest) = rest.split_at(l1);
    let (g2, g3) = rest.split_at(l2);
    let groups = [g0, g1, g2, g3];
    (0..n).map(|i| groups[i % 4][i / 4]).collect()
}

pub fn bg4_split(d: &[u8]) -> Vec<u8> {
    let mut out = Vec::with_capacity(d.len());
    for j in 0..4 {
        out.extend(d.iter().skip(j).step_by(4));
    }
    out
}

pub fn lz4_frame_decode(payload: &[u8], cap: usize) -> Result<Vec<u8>, String> {
    use std::io::Read;
    let mut dec = lz4_flex::frame::FrameDecoder::new(payload);
    let mut out = Vec::new();
    let mut buf = [0u8; 8192];
    loop {
        match dec.read(&mut buf) {
            Ok(0) => break,
            Ok(n) => {
                out.extend_from_slice(&buf[..n]);
                if out.len() > cap {
                    return Err("decompressed data exceeds the declared length".into());
                }
            },
            Err(e) => return Err(format!("lz4: {e}")),
        }
    }
    Ok(out)
}

/// Decode one chunk at `pos`.
pub fn decode_chunk(bytes: &[u8], pos: usize) -> Result<RefChunk, String> {
    if bytes.len() < pos + 8 {
        return Err("truncated chunk header".into());
    }
    let h = &bytes[pos..pos + 8];
    if h[0] != 0 {
        return Err(format!("chunk header version {}", h[0]));
    }
    let clen = u24(&h[1..4]);
    let scheme = h[4];
    let ulen = u24(&h[5..8]);
    if scheme > 2 {
        return Err(format!("unknown compression scheme {scheme}"));
    }
    if ulen > MAX_CHUNK {
        return Err(format!("declared chunk length {ulen} above the maximum"));
    }
    if bytes.len() < pos + 8 + clen {
        return Err("truncated chunk payload".into());
    }
    let payload = &bytes[pos + 8..pos + 8 + clen];
    let data = match scheme {
        0 => payload.to_vec(),
        1 => lz4_frame_decode(payload, ulen)?,
        _ => bg4_regroup(&lz4_frame_decode(payload, ulen)?),
    };
    if data.len() != ulen {
        return Err(format!("chunk decodes to {} bytes, header says {ulen}", data.len()));
    }
    Ok(RefChunk { start: pos, end: pos + 8 + clen, scheme, data })
}

#[derive(Clone, Debug, PartialEq)]
pub enum RefFooter {
    None,
    V0 { hash: H, bounds: Vec<u32>, hashes: Vec<H> },
    V1 { hash: H, bounds: Vec<u32>, unpacked: Vec<u32>, hashes: Vec<H>, hashes_off: u32, bounds_off: u32 },
}

#[derive(Clone, Debug)]
pub struct RefXorb {
    pub chunks: Vec<RefChunk>,
    pub footer: RefFooter,
    /// offset where the chunk list ends
    pub content_end: usize,
}

fn rd_u32(b: &[u8], p: &mut usize) -> Result<u32, String> {
    if b.len() < *p + 4 {
        return Err("truncated footer".into());
    }
    let v = u32::from_le_bytes(b[*p..*p + 4].try_into().unwrap());
    *p += 4;
    Ok(v)
}
fn rd_hash(b: &[u8], p: &mut usize) -> Result<H, String> {
    if b.len() < *p + 32 {
        return Err("truncated footer".into());
    }
    let mut h = [0u8; 32];
    h.copy_from_slice(&b[*p..*p + 32]);
    *p += 32;
    Ok(h)
}
fn rd_ident(b: &[u8], p: &mut usize, want: &[u8; 7]) -> Result<(), String> {
    if b.len() < *p + 7 || &b[*p..*p + 7] != want {
        return Err("bad section ident".into());
    }
    *p += 7;
    Ok(())
}

/// Strict parse of a whole object: chunk list from offset 0, then nothing, or a footer + length
/// suffix that ends exactly at the end of the input.
pub fn parse(bytes: &[u8]) -> Result<RefXorb, String> {
    let mut chunks = Vec::new();
    let mut pos = 0;
    while pos < bytes.len() && !(bytes.len() >= pos + 7 && &bytes[pos..pos + 7] == IDENT) {
        let c = decode_chunk(bytes, pos)?;
        pos = c.end;
        chunks.push(c);
    }
    let content_end = pos;
    if pos == bytes.len() {
        return Ok(RefXorb { chunks, footer: RefFooter::None, content_end });
    }
    let fstart = pos;
    let mut p = pos + 7;
    if bytes.len() < p + 1 {
        return Err("truncated footer".into());
    }
    let version = bytes[p];
    p += 1;
    let footer = match version {
        0 => {
            let hash = rd_hash(bytes, &mut p)?;
            let n = rd_u32(bytes, &mut p)? as usize;
            if n > bytes.len() {
                return Err("chunk count larger than the object".into());
            }
            let mut bounds = Vec::new();
            for _ in 0..n {
                bounds.push(rd_u32(bytes, &mut p)?);
            }
            let mut hashes = Vec::new();
            for _ in 0..n {
                hashes.push(rd_hash(bytes, &mut p)?);
            }
            if bytes.len() < p + 16 {
                return Err("truncated footer".into());
            }
            p += 16;
            RefFooter::V0 { hash, bounds, hashes }
        },
        1 => {
            let hash = rd_hash(bytes, &mut p)?;
            let hs = p;
            rd_ident(bytes, &mut p, IDENT_HASHES)?;
            if bytes.len() < p + 1 || bytes[p] != 0 {
                return Err("bad hashes section version".into());
            }
            p += 1;
            let n = rd_u32(bytes, &mut p)? as usize;
            if n > bytes.len() {
                return Err("chunk count larger than the object".into());
            }
            let mut hashes = Vec::new();
            for _ in 0..n {
                hashes.push(rd_hash(bytes, &mut p)?);
            }
            let bs = p;
            rd_ident(bytes, &mut p, IDENT_BOUNDS)?;
            if bytes.len() < p + 1 || bytes[p] != 1 {
                return Err("bad boundaries section version".into());
            }
            p += 1;
            let n3 = rd_u32(bytes, &mut p)? as usize;
            if n3 != n {
                return Err("inconsistent chunk counts".into());
            }
            let mut bounds = Vec::new();
            for _ in 0..n {
                bounds.push(rd_u32(bytes, &mut p)?);
            }
            let mut unpacked = Vec::new();
            for _ in 0..n {
                unpacked.push(rd_u32(bytes, &mut p)?);
            }
            let n4 = rd_u32(bytes, &mut p)? as usize;
            if n4 != n {
                return Err("inconsistent chunk counts".into());
            }
            let hashes_off = rd_u32(bytes, &mut p)?;
            let bounds_off = rd_u32(bytes, &mut p)?;
            if bytes.len() < p + 16 {
                return Err("truncated footer".into());
            }
            p += 16;
            if (p - hs) as u32 != hashes_off || (p - bs) as u32 != bounds_off {
                return Err("section offsets do not match the layout".into());
            }
            RefFooter::V1 { hash, bounds, unpacked, hashes, hashes_off, bounds_off }
        },
        v => return Err(format!("unknown footer version {v}")),
    };
    let info_len = rd_u32(bytes, &mut p)? as usize;
    if info_len != p - 4 - fstart {
        return Err("length suffix does not match the footer".into());
    }
    if p != bytes.len() {
        return Err("bytes after the length suffix".into());
    }
    Ok(RefXorb { chunks, footer, content_end })
}

impl RefXorb {
    pub fn leaves(&self) -> Vec<(H, u64)> {
        self.chunks.iter().map(|c| (merkle::chunk_hash(&c.data), c.data.len() as u64)).collect()
    }
    pub fn hash(&self) -> H {
        merkle::xorb_hash(&self.leaves())
    }
    /// Does the footer describe the chunk data exactly?
    pub fn footer_consistent(&self) -> Result<(), String> {
        let leaves = self.leaves();
        let phys: Vec<u32> = self.chunks.iter().map(|c| c.end as u32).collect();
        let mut acc = 0u32;
        let unp: Vec<u32> = self
            .chunks
            .iter()
            .map(|c| {
                acc += c.data.len() as u32;
                acc
            })
            .collect();
        match &self.footer {
            RefFooter::None => Ok(()),
            RefFooter::V0 { hash, bounds, hashes } => {
                if *hash != self.hash() {
                    return Err("footer xorb hash differs from the data".into());
                }
                if *bounds != phys {
                    return Err("footer physical offsets differ from the data".into());
                }
                if hashes.len() != leaves.len() || hashes.iter().zip(leaves.iter()).any(|(a, b)| *a != b.0) {
                    return Err("footer chunk hashes differ from the data".into());
                }
                Ok(())
            },
            RefFooter::V1 { hash, bounds, unpacked, hashes, .. } => {
                if *hash != self.hash() {
                    return Err("footer xorb hash differs from the data".into());
                }
                if *bounds != phys {
                    return Err("footer physical offsets differ from the data".into());
                }
                if *unpacked != unp {
                    return Err("footer unpacked offsets differ from the data".into());
                }
                if hashes.len() != leaves.len() || hashes.iter().zip(leaves.iter()).any(|(a, b)| *a != b.0) {
                    return Err("footer chunk hashes differ from the data".into());
                }
                Ok(())
            },
        }
    }
}

// ---------------------------------------------------------------------------------------------
// reference footer writers (used to build valid-by-construction and deliberately stale objects)

pub fn write_footer_v1(hash: &H, hashes: &[H], bounds: &[u32], unpacked: &[u32]) -> Vec<u8> {
    let n = hashes.len() as u32;
    let mut f = Vec::new();
    f.extend_from_slice(IDENT);
    f.push(1);
    f.extend_from_slice(hash);
    let hs = f.len();
    f.extend_from_slice(IDENT_HASHES);
    f.push(0);
    f.extend_from_slice(&n.to_le_bytes());
    for h in hashes {
        f.extend_from_slice(h);
    }
    let bs = f.len();
    f.extend_from_slice(IDENT_BOUNDS);
    f.push(1);
    f.extend_from_slice(&n.to_le_bytes());
    for b in bounds {
        f.extend_from_slice(&b.to_le_bytes());
    }
    for u in unpacked {
        f.extend_from_slice(&u.to_le_bytes());
    }
    f.extend_from_slice(&n.to_le_bytes());
    let end = f.len() + 4 + 4 + 16;
    f.extend_from_slice(&((end - hs) as u32).to_le_bytes());
    f.extend_from_slice(&((end - bs) as u32).to_le_bytes());
    f.extend_from_slice(&[0u8; 16]);
    let len = f.len() as u32;
    f.extend_from_slice(&len.to_le_bytes());
    f
}

pub fn write_footer_v0(hash: &H, hashes: &[H], bounds: &[u32]) -> Vec<u8> {
    let n = hashes.len() as u32;
    let mut f = Vec::new();
    f.extend_from_slice(IDENT);
    f.push(0);
    f.extend_from_slice(hash);
    f.extend_from_slice(&n.to_le_bytes());
    for b in bounds {
        f.extend_from_slice(&b.to_le_bytes());
    }
    for h in hashes {
        f.extend_from_slice(h);
    }
    f.extend_from_slice(&[0u8; 16]);
    let len = f.len() as u32;
    f.extend_from_slice(&len.to_le_bytes());
    f
}

/// Lenient chunk walk: decode chunk records from offset 0 until the footer ident or the end of
/// the input. Returns the chunks and the stop offset, or the error of the first undecodable record.
pub fn walk(bytes: &[u8]) -> Result<(Vec<RefChunk>, usize), String> {
    let mut chunks = Vec::new();
    let mut pos = 0;
    while pos < bytes.len() && !(bytes.len() >= pos + 7 && &bytes[pos..pos + 7] == IDENT) {
        let c = decode_chunk(bytes, pos)?;
        pos = c.end;
        chunks.push(c);
    }
    Ok((chunks, pos))
}
