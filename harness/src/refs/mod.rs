//! Independent reference implementations (oracles). They share no code with the crates under test.
pub mod chunker;
pub mod merkle;
pub mod xorb;
