//! Reference content-defined chunker, written from the documented rule:
//!   h = 0 at a boundary; the first max(min-64-1, 0) bytes of a chunk are skipped (only when
//!   min > 64); then h = (h << 1) + GEAR[b]; a boundary follows the first byte with
//!   h & mask == 0, or the chunk is cut at `max` bytes; the stream's tail is the last chunk.
//! Only the public gear table *data* is used from the gearhash crate.

#[derive(Clone, Copy, Debug)]
pub struct ChunkParams {
    pub target: usize,
    pub min: usize,
    pub max: usize,
    pub mask: u64,
}

impl ChunkParams {
    pub fn new(target: usize, min_divisor: usize, max_multiplier: usize) -> Self {
        assert!(target.is_power_of_two() && target > 64);
        let bits = target.trailing_zeros();
        // top log2(target) bits of the 64-bit hash
        let mask = if bits == 0 { 0 } else { (!0u64) << (64 - bits) };
        ChunkParams { target, min: target / min_divisor, max: target * max_multiplier, mask }
    }
    pub fn default_for(target: usize) -> Self {
        Self::new(target, 8, 2)
    }
    pub fn skip(&self) -> usize {
        if self.min > 64 {
            self.min - 64 - 1
        } else {
            0
        }
    }
    /// smallest length a non-final chunk can have
    pub fn min_nonfinal_len(&self) -> usize {
        self.skip() + 1
    }
}

/// Length of the chunk starting at data[0], and whether its end is "natural" (cut by the hash
/// rule or the maximum size, not by the end of the input).
pub fn next_chunk_len(data: &[u8], p: &ChunkParams) -> (usize, bool) {
    let table = &gearhash::DEFAULT_TABLE;
    let mut h: u64 = 0;
    let mut i = p.skip();
    if i >= data.len() {
        return (data.len(), false);
    }
    while i < data.len() {
        h = (h << 1).wrapping_add(table[data[i] as usize]);
        i += 1;
        if h & p.mask == 0 || i >= p.max {
            return (i, true);
        }
    }
    (data.len(), false)
}

/// End offsets of all chunks of `data` (the last one equals data.len() unless data is empty).
pub fn boundaries(data: &[u8], p: &ChunkParams) -> Vec<usize> {
    let mut out = Vec::new();
    let mut pos = 0;
    while pos < data.len() {
        let (l, _) = next_chunk_len(&data[pos..], p);
        pos += l;
        out.push(pos);
    }
    out
}

/// (end offsets, natural flag per chunk)
pub fn boundaries_flagged(data: &[u8], p: &ChunkParams) -> Vec<(usize, bool)> {
    let mut out = Vec::new();
    let mut pos = 0;
    while pos < data.len() {
        let (l, nat) = next_chunk_len(&data[pos..], p);
        pos += l;
        out.push((pos, nat));
    }
    out
}

pub fn chunks<'a>(data: &'a [u8], p: &ChunkParams) -> Vec<&'a [u8]> {
    let mut out = Vec::new();
    let mut prev = 0;
    for b in boundaries(data, p) {
        out.push(&data[prev..b]);
        prev = b;
    }
    out
}
