//! Session engine shared by C01 C02 C03 C11 C14 C15 C16: configurations (process environment),
//! chunk-pool file recipes, a tracing / fault-injecting store client, and a history runner that
//! records everything the per-property oracles need.

use std::collections::{BTreeMap, BTreeSet, HashMap};
use std::path::{Path, PathBuf};
use std::sync::atomic::{AtomicU64, Ordering};
use std::sync::{Arc, Mutex, OnceLock};

use async_trait::async_trait;
use cas_client::{CasClientError, Client, FileProvider, LocalClient, OutputProvider, ReconstructionClient, ShardClientInterface, UploadClient};
use cas_client::{VerifRegistrationClient, VerifShardDedupProber};
use cas_types::FileRange;
use data::configurations::{DataConfig, Endpoint, GlobalDedupPolicy, RepoInfo, ShardConfig, TranslatorConfig};
use data::{CacheConfig, FileDownloader, FileUploadSession, PointerFile};
use deduplication::DeduplicationMetrics;
use mdb_shard::file_structs::MDBFileInfo;
use mdb_shard::shard_file_reconstructor::FileReconstructor;
use merklehash::MerkleHash;
use proptest::prelude::*;
use serde::{Deserialize, Serialize};
use utils::progress::ProgressUpdater;
use xet_threadpool::ThreadPool;

use crate::engine::{idx, Sm64};
use crate::refs::chunker::{self as rc, ChunkParams};
use crate::refs::merkle::{self as rm, H};

// ---------------------------------------------------------------------------------------------
// configuration = process environment (the constants are lazy statics read once per process)

#[derive(Clone, Debug, Serialize, Deserialize, PartialEq)]
pub struct Conf {
    pub target_log2: u8,
    pub max_xorb_bytes_mult: u16, // MAX_XORB_BYTES = mult * target (>= 2: one maximum chunk must fit)
    pub max_xorb_chunks: u16,
    pub shard_min_size: u32,
    pub ingestion_block: u32,
    pub nranges: u16,
    pub min_cpr_x10: u16,
    /// MDB_SHARD_GLOBAL_DEDUP_CHUNK_MODULUS (a chunk is eligible for a global dedup query if hash % m == 0)
    #[serde(default = "default_modulus")]
    pub global_dedup_modulus: u16,
    /// MINIMUM_CHUNK_DIVISOR / MAXIMUM_CHUNK_MULTIPLIER (shipped: 8 / 2)
    #[serde(default = "default_divisor")]
    pub min_divisor: u8,
    #[serde(default = "default_multiplier")]
    pub max_multiplier: u8,
    /// MAX_CONCURRENT_UPLOADS (upload slots shared by the sessions of a process)
    #[serde(default = "default_uploads")]
    pub max_uploads: u8,
    /// MIN_N_CHUNKS_PER_RANGE_HYSTERESIS_FACTOR x 10 and MIN_SPACING_BETWEEN_GLOBAL_DEDUP_QUERIES
    #[serde(default = "default_hysteresis")]
    pub hysteresis_x10: u8,
    #[serde(default = "default_spacing")]
    pub min_spacing: u16,
    /// CHUNK_INDEX_TABLE_MAX_SIZE: once this many chunks are indexed, further shards are registered without
    /// their chunks (less dedup by design - C11 keeps the default - but files must stay reconstructible)
    #[serde(default = "default_index_max")]
    pub chunk_index_max: u32,
}
fn default_index_max() -> u32 {
    64 << 20
}
fn default_divisor() -> u8 {
    8
}
fn default_multiplier() -> u8 {
    2
}
fn default_uploads() -> u8 {
    8
}
fn default_hysteresis() -> u8 {
    5
}
fn default_spacing() -> u16 {
    256
}

fn default_modulus() -> u16 {
    1024
}

impl Conf {
    pub fn target(&self) -> usize {
        1usize << self.target_log2
    }
    pub fn max_xorb_bytes(&self) -> usize {
        // one maximum-size chunk must fit
        self.target() * (self.max_xorb_bytes_mult.max(2).max(self.max_multiplier as u16) as usize)
    }
    pub fn max_xorb_chunks(&self) -> usize {
        self.max_xorb_chunks.max(1) as usize
    }
    pub fn params(&self) -> ChunkParams {
        ChunkParams::new(self.target(), self.min_divisor.max(1) as usize, self.max_multiplier.max(2) as usize)
    }
    pub fn env(&self) -> BTreeMap<String, String> {
        let mut m = BTreeMap::new();
        m.insert("HF_XET_TARGET_CHUNK_SIZE".into(), self.target().to_string());
        m.insert("HF_XET_MAX_XORB_BYTES".into(), self.max_xorb_bytes().to_string());
        m.insert("HF_XET_MAX_XORB_CHUNKS".into(), self.max_xorb_chunks().to_string());
        m.insert("HF_XET_MDB_SHARD_MIN_TARGET_SIZE".into(), self.shard_min_size.max(300).to_string());
        m.insert("HF_XET_INGESTION_BLOCK_SIZE".into(), self.ingestion_block.max(1).to_string());
        m.insert("HF_XET_NRANGES_IN_STREAMING_FRAGMENTATION_ESTIMATOR".into(), self.nranges.max(2).to_string());
        m.insert("HF_XET_MIN_N_CHUNKS_PER_RANGE".into(), format!("{:.1}", self.min_cpr_x10 as f32 / 10.0));
        m.insert("HF_XET_MDB_SHARD_GLOBAL_DEDUP_CHUNK_MODULUS".into(), self.global_dedup_modulus.max(1).to_string());
        m.insert("HF_XET_MINIMUM_CHUNK_DIVISOR".into(), self.min_divisor.max(1).to_string());
        m.insert("HF_XET_MAXIMUM_CHUNK_MULTIPLIER".into(), self.max_multiplier.max(2).to_string());
        m.insert("HF_XET_MAX_CONCURRENT_UPLOADS".into(), self.max_uploads.max(1).to_string());
        m.insert("HF_XET_MIN_N_CHUNKS_PER_RANGE_HYSTERESIS_FACTOR".into(), format!("{:.1}", self.hysteresis_x10 as f32 / 10.0));
        m.insert("HF_XET_MIN_SPACING_BETWEEN_GLOBAL_DEDUP_QUERIES".into(), self.min_spacing.to_string());
        m.insert("HF_XET_CHUNK_INDEX_TABLE_MAX_SIZE".into(), self.chunk_index_max.to_string());
        m
    }
    /// the configuration this process actually runs under (read back from the lazy statics)
    pub fn active() -> Conf {
        let target = *deduplication::constants::TARGET_CHUNK_SIZE;
        Conf {
            target_log2: target.trailing_zeros() as u8,
            max_xorb_bytes_mult: (*deduplication::constants::MAX_XORB_BYTES / target) as u16,
            max_xorb_chunks: (*deduplication::constants::MAX_XORB_CHUNKS).min(u16::MAX as usize) as u16,
            shard_min_size: (*mdb_shard::constants::MDB_SHARD_MIN_TARGET_SIZE).min(u32::MAX as u64) as u32,
            ingestion_block: std::env::var("HF_XET_INGESTION_BLOCK_SIZE").ok().and_then(|s| s.parse().ok()).unwrap_or(8 << 20),
            nranges: std::env::var("HF_XET_NRANGES_IN_STREAMING_FRAGMENTATION_ESTIMATOR").ok().and_then(|s| s.parse().ok()).unwrap_or(128),
            min_cpr_x10: std::env::var("HF_XET_MIN_N_CHUNKS_PER_RANGE").ok().and_then(|s| s.parse::<f32>().ok()).map(|v| (v * 10.0) as u16).unwrap_or(80),
            global_dedup_modulus: std::env::var("HF_XET_MDB_SHARD_GLOBAL_DEDUP_CHUNK_MODULUS").ok().and_then(|s| s.parse().ok()).unwrap_or(1024),
            min_divisor: (*deduplication::constants::MINIMUM_CHUNK_DIVISOR).min(255) as u8,
            max_multiplier: (*deduplication::constants::MAXIMUM_CHUNK_MULTIPLIER).min(255) as u8,
            max_uploads: std::env::var("HF_XET_MAX_CONCURRENT_UPLOADS").ok().and_then(|s| s.parse().ok()).unwrap_or(8),
            hysteresis_x10: std::env::var("HF_XET_MIN_N_CHUNKS_PER_RANGE_HYSTERESIS_FACTOR").ok().and_then(|s| s.parse::<f32>().ok()).map(|v| (v * 10.0) as u8).unwrap_or(5),
            min_spacing: std::env::var("HF_XET_MIN_SPACING_BETWEEN_GLOBAL_DEDUP_QUERIES").ok().and_then(|s| s.parse().ok()).unwrap_or(256),
            chunk_index_max: (*mdb_shard::constants::CHUNK_INDEX_TABLE_MAX_SIZE).min(u32::MAX as usize) as u32,
        }
    }
}

/// `frag_bias`: prefer small estimator windows so that fragmentation prevention fires.
pub fn conf_strategy(frag_bias: bool) -> impl Strategy<Value = Conf> {
    let nranges = if frag_bias {
        prop_oneof![4 => Just(2u16), 3 => Just(4u16), 2 => Just(8u16), 1 => Just(128u16)].boxed()
    } else {
        prop_oneof![1 => Just(2u16), 1 => Just(4u16), 1 => Just(16u16), 3 => Just(128u16)].boxed()
    };
    (
        prop_oneof![2 => Just(7u8), 2 => Just(8u8), 2 => Just(9u8), 5 => Just(10u8), 3 => Just(11u8), 1 => Just(12u8)],
        prop_oneof![2 => Just(2u16), 2 => Just(3u16), 3 => 4u16..16, 3 => 16u16..=64, 1 => Just(1024u16)],
        prop_oneof![1 => Just(1u16), 1 => Just(2u16), 2 => Just(3u16), 3 => Just(8u16), 3 => Just(64u16), 2 => Just(1024u16)],
        prop_oneof![3 => 300u32..5_000, 2 => 5_000u32..200_000, 2 => Just(64u32 << 20)],
        // ingestion block: 1 byte, small, around the chunk size (x/8 of the target: 0.5 .. 6 targets), or the 8 MiB default
        prop_oneof![1 => (Just(0u8), Just(1u32)), 2 => (Just(0u8), 2u32..400), 3 => (Just(1u8), 4u32..48), 2 => (Just(0u8), Just(8u32 << 20))],
        nranges,
        prop_oneof![3 => Just(80u16), 2 => Just(20u16), 2 => Just(15u16), 1 => Just(1000u16)],
        prop_oneof![2 => Just(1u16), 2 => Just(4u16), 3 => Just(1024u16)],
        // chunk divisor / multiplier, upload slots, hysteresis, global-dedup query spacing (shipped values most often)
        (
            prop_oneof![6 => Just(8u8), 1 => Just(4u8), 1 => Just(16u8), 1 => Just(2u8)],
            prop_oneof![6 => Just(2u8), 1 => Just(3u8), 1 => Just(4u8)],
            prop_oneof![4 => Just(8u8), 2 => Just(1u8), 2 => Just(2u8)],
            prop_oneof![4 => Just(5u8), 1 => Just(0u8), 1 => Just(10u8)],
            prop_oneof![4 => Just(256u16), 1 => Just(0u16), 1 => Just(1u16)],
            prop_oneof![5 => Just(64u32 << 20), 1 => Just(4u32), 1 => Just(64u32), 1 => Just(2000u32)],
        ),
    )
        .prop_map(|(target_log2, max_xorb_bytes_mult, max_xorb_chunks, shard_min_size, ingestion, nranges, min_cpr_x10, global_dedup_modulus, (min_divisor, max_multiplier, max_uploads, hysteresis_x10, min_spacing, chunk_index_max))| Conf {
            target_log2,
            max_xorb_bytes_mult,
            max_xorb_chunks,
            shard_min_size,
            ingestion_block: if ingestion.0 == 1 { ((1u32 << target_log2) / 8) * ingestion.1 + 1 } else { ingestion.1 },
            nranges,
            min_cpr_x10,
            global_dedup_modulus,
            min_divisor,
            max_multiplier,
            max_uploads,
            hysteresis_x10,
            min_spacing,
            chunk_index_max,
        })
}

// ---------------------------------------------------------------------------------------------
// chunk pool and file recipes

#[derive(Clone, Debug, Serialize, Deserialize, PartialEq)]
pub enum Elem {
    /// pool chunk `id` (a natural chunk: cut by the hash rule or the maximum size)
    C(u16),
    /// run of pool chunks id, id+1, .. id+n-1
    Run(u16, u8),
    /// repeat `n` already listed elements of this file starting at the (monotonically mapped) position
    Rep(u16, u8),
    /// a chunk that occurs nowhere else
    Uniq(u64),
    /// `count` copies of the constant-byte chunk (a forced cut at exactly the maximum chunk size)
    Big(u8, u8),
}

#[derive(Clone, Debug, Serialize, Deserialize, PartialEq)]
pub struct FileSpec {
    pub elems: Vec<Elem>,
    /// trailing bytes that do not end at a natural boundary (seed, length)
    pub tail: Option<(u64, u16)>,
    /// (kind, magnitude) per add_data call; the remainder goes into a last call
    pub feed: Vec<(u8, u16)>,
}

#[derive(Clone, Debug, Serialize, Deserialize, PartialEq)]
pub struct SessionSpec {
    pub files: Vec<FileSpec>,
    /// clean the files of this session concurrently (tokio tasks on the multi-thread runtime)
    pub concurrent: bool,
    /// generated yield counts injected between add_data calls in concurrent mode
    pub yields: Vec<u8>,
    /// which client machine runs this session: clients share the store but have their own shard
    /// cache / session directories (so cross-client dedup needs the global-dedup path)
    #[serde(default)]
    pub client: u8,
    /// simulate a client restart before this session: the client's directories are moved to a new
    /// path, so every process-global cache keyed by path (shard managers, shard file handles) is
    /// bypassed and the state is re-loaded from disk as a fresh process would
    #[serde(default)]
    pub restart_before: bool,
    /// run this session as another process of the same client machine would: the client's
    /// directories are addressed through an alias path (symlink), so the session gets its own
    /// shard-manager instances while sharing the shard cache directory on disk
    #[serde(default)]
    pub peer: bool,
}

#[derive(Clone, Debug, Serialize, Deserialize, PartialEq)]
pub struct History {
    pub pool_seed: u64,
    /// size of the chunk id space (small = heavy sharing)
    pub n_ids: u16,
    pub salt_seed: u64,
    pub sessions: Vec<SessionSpec>,
    /// enable the local global-dedup path (store hands shards back on chunk queries)
    pub global_dedup: bool,
}

pub struct ChunkPool {
    pub params: ChunkParams,
    pub seed: u64,
    cache: Mutex<HashMap<u64, Arc<Vec<u8>>>>,
}

impl ChunkPool {
    pub fn new(params: ChunkParams, seed: u64) -> Self {
        ChunkPool { params, seed, cache: Mutex::new(HashMap::new()) }
    }
    fn natural_from_stream(&self, stream: Vec<u8>) -> Vec<u8> {
        let (l, nat) = rc::next_chunk_len(&stream, &self.params);
        assert!(nat, "stream of max-chunk bytes must end a natural chunk");
        stream[..l].to_vec()
    }
    /// chunk classes by id: random (most), periodic, two-symbol, constant (forced maximum-size chunk)
    pub fn chunk(&self, key: u64) -> Arc<Vec<u8>> {
        if let Some(c) = self.cache.lock().unwrap().get(&key) {
            return c.clone();
        }
        let max = self.params.max;
        let mut r = Sm64(self.seed ^ key.wrapping_mul(0x9E3779B97F4A7C15));
        let stream: Vec<u8> = if key >= BIG_BASE && key < UNIQ_BASE {
            vec![(key - BIG_BASE) as u8 ^ 0x5a; max]
        } else { match key % 8 {
            5 => {
                let p = 3 + (r.next() % 200) as usize;
                let block = r.bytes(p);
                (0..max).map(|i| block[i % p]).collect()
            },
            6 => {
                let (a, b) = (r.next() as u8, r.next() as u8);
                let bits = r.bytes(max / 8 + 1);
                (0..max).map(|i| if (bits[i / 8] >> (i % 8)) & 1 == 1 { a } else { b }).collect()
            },
            7 => vec![(key / 8 % 4) as u8; max],
            _ => r.bytes(max),
        } };
        let c = Arc::new(self.natural_from_stream(stream));
        self.cache.lock().unwrap().insert(key, c.clone());
        c
    }
}

pub const UNIQ_BASE: u64 = 1 << 40;
pub const BIG_BASE: u64 = 1 << 39;

impl FileSpec {
    /// expanded list of chunk keys (pool ids, or UNIQ_BASE + seed for unique chunks)
    pub fn keys(&self, n_ids: u16) -> Vec<u64> {
        let n_ids = n_ids.max(1) as u64;
        let mut out: Vec<u64> = Vec::new();
        for e in &self.elems {
            match e {
                Elem::C(i) => out.push(*i as u64 % n_ids),
                Elem::Run(i, n) => {
                    for k in 0..*n as u64 {
                        out.push((*i as u64 + k) % n_ids);
                    }
                },
                Elem::Rep(from, n) => {
                    if !out.is_empty() {
                        let s = idx(*from, out.len());
                        let e = (s + *n as usize).min(out.len());
                        let span: Vec<u64> = out[s..e].to_vec();
                        out.extend(span);
                    }
                },
                Elem::Uniq(seed) => out.push(UNIQ_BASE + (*seed >> 24)),
                Elem::Big(b, n) => {
                    for _ in 0..*n {
                        out.push(BIG_BASE + (*b % 4) as u64);
                    }
                },
            }
        }
        out
    }
    pub fn bytes(&self, pool: &ChunkPool, n_ids: u16) -> Vec<u8> {
        let mut v = Vec::new();
        for k in self.keys(n_ids) {
            v.extend_from_slice(&pool.chunk(k));
        }
        if let Some((seed, len)) = &self.tail {
            v.extend_from_slice(&Sm64(*seed).bytes(*len as usize));
        }
        v
    }
}

fn elem_strategy() -> impl Strategy<Value = Elem> {
    prop_oneof![
        5 => any::<u16>().prop_map(Elem::C),
        4 => (any::<u16>(), 2u8..12).prop_map(|(i, n)| Elem::Run(i, n)),
        1 => (any::<u16>(), 20u8..80).prop_map(|(i, n)| Elem::Run(i, n)),
        2 => (any::<u16>(), 1u8..10).prop_map(|(f, n)| Elem::Rep(f, n)),
        3 => any::<u64>().prop_map(Elem::Uniq),
    ]
}

/// `frag`: files made of alternating [1 known][k fresh] patterns
pub fn file_strategy(frag: bool) -> BoxedStrategy<FileSpec> {
    let feed = proptest::collection::vec((0u8..8, any::<u16>()), 0..6);
    let tail = proptest::option::weighted(0.4, (any::<u64>(), prop_oneof![3 => 1u16..60, 1 => 60u16..3000]));
    if frag {
        let pat = (any::<u16>(), 1u8..5, 1u8..4, 3u8..40).prop_map(|(base, known, fresh, reps)| {
            let mut v = Vec::new();
            for r in 0..reps as u16 {
                v.push(Elem::Run(base.wrapping_add(r * 7), known));
                for f in 0..fresh {
                    v.push(Elem::Uniq(((base as u64) << 32 | (r as u64) << 8 | f as u64).wrapping_mul(0x9E3779B97F4A7C15)));
                }
            }
            v
        });
        (prop_oneof![3 => pat, 1 => proptest::collection::vec(elem_strategy(), 0..30)], tail, feed)
            .prop_map(|(elems, tail, feed)| FileSpec { elems, tail, feed })
            .boxed()
    } else {
        let n = prop_oneof![1 => Just(0usize), 5 => 1usize..6, 4 => 6usize..30, 1 => 30usize..90];
        (n.prop_flat_map(|n| proptest::collection::vec(elem_strategy(), n)), tail, feed)
            .prop_map(|(elems, tail, feed)| FileSpec { elems, tail, feed })
            .boxed()
    }
}

pub fn session_strategy(frag: bool, max_files: usize) -> impl Strategy<Value = SessionSpec> {
    (
        proptest::collection::vec(file_strategy(frag), 1..=max_files),
        proptest::bool::weighted(0.35),
        proptest::collection::vec(0u8..4, 1..6),
        prop_oneof![4 => Just(0u8), 1 => Just(1u8), 1 => Just(2u8)],
        proptest::bool::weighted(0.3),
        proptest::bool::weighted(0.25),
    )
        .prop_map(|(files, concurrent, yields, client, restart_before, peer)| SessionSpec { files, concurrent, yields, client, restart_before, peer })
}

pub fn history_strategy(frag: bool, max_sessions: usize, max_files: usize) -> impl Strategy<Value = History> {
    (
        any::<u64>(),
        prop_oneof![2 => 4u16..24, 3 => 24u16..120, 2 => 120u16..600],
        any::<u64>(),
        proptest::collection::vec(session_strategy(frag, max_files), 1..=max_sessions),
        proptest::bool::weighted(0.25),
    )
        .prop_map(|(pool_seed, n_ids, salt_seed, sessions, global_dedup)| History { pool_seed, n_ids, salt_seed, sessions, global_dedup })
}

pub fn call_size(kind: u8, mag: u16, target: usize) -> usize {
    match kind {
        0 => 0,
        1 => 1,
        2 | 3 => 1 + (mag as usize % 130),
        4 | 5 => (mag as usize * 2 * target) >> 16,
        6 => (mag as usize * 6 * target) >> 16,
        _ => (mag as usize * 40 * target) >> 16,
    }
}

// ---------------------------------------------------------------------------------------------
// tracing / fault-injecting client

#[derive(Clone, Debug, Serialize, Deserialize)]
pub enum Call {
    Put { hash: H, n_chunks: usize, n_bytes: usize, boundaries_ok: bool, max_chunk_len: usize, empty: bool },
    UploadShard { hash: H, n_bytes: usize },
    /// harness marker (e.g. "finalize-start") placed in the same sequence as the store calls
    Marker(String),
}

#[derive(Clone, Debug)]
pub struct Event {
    pub seq: u64,
    /// index among store-mutating calls (put / upload_shard), in start order
    pub call_index: usize,
    pub start: bool,
    pub call: Call,
    /// completion only: Ok(returned value) / Err(text)
    pub result: Option<Result<u64, String>>,
    /// shard bytes handed over (start of upload_shard only)
    pub shard_bytes: Option<Arc<Vec<u8>>>,
    pub injected_fault: bool,
}

#[derive(Clone, Debug, Default, Serialize, Deserialize, PartialEq)]
pub struct FaultPlan {
    /// indices (in start order) of store calls that fail
    pub fail_calls: Vec<u16>,
    /// per call index (cyclic): number of cooperative yields before the call completes
    pub delays: Vec<u8>,
}

pub struct TraceClient {
    inner: LocalClient,
    seq: AtomicU64,
    calls: AtomicU64,
    pub log: Mutex<Vec<Event>>,
    plan: FaultPlan,
    /// the client's real shard cache directory; the inner local store copies shards into a private
    /// staging directory and this wrapper publishes them atomically (the production client writes
    /// shards atomically; the local test store's plain copy would race between concurrent queries)
    publish_dir: Option<PathBuf>,
    gd_lock: tokio::sync::Mutex<u64>,
}

impl TraceClient {
    pub fn new(inner: LocalClient, plan: FaultPlan, publish_dir: Option<PathBuf>) -> Self {
        TraceClient {
            inner,
            seq: AtomicU64::new(0),
            calls: AtomicU64::new(0),
            log: Mutex::new(Vec::new()),
            plan,
            publish_dir,
            gd_lock: tokio::sync::Mutex::new(0),
        }
    }
    fn begin(&self, call: Call, shard: Option<Arc<Vec<u8>>>) -> (usize, bool) {
        let ci = self.calls.fetch_add(1, Ordering::SeqCst) as usize;
        let fail = self.plan.fail_calls.iter().any(|f| *f as usize == ci);
        let seq = self.seq.fetch_add(1, Ordering::SeqCst);
        self.log.lock().unwrap().push(Event { seq, call_index: ci, start: true, call, result: None, shard_bytes: shard, injected_fault: fail });
        (ci, fail)
    }
    fn end(&self, ci: usize, call: Call, result: Result<u64, String>, fail: bool) {
        let seq = self.seq.fetch_add(1, Ordering::SeqCst);
        self.log.lock().unwrap().push(Event { seq, call_index: ci, start: false, call, result: Some(result), shard_bytes: None, injected_fault: fail });
    }
    pub fn mark(&self, what: &str) {
        let seq = self.seq.fetch_add(1, Ordering::SeqCst);
        self.log.lock().unwrap().push(Event { seq, call_index: usize::MAX, start: true, call: Call::Marker(what.to_string()), result: None, shard_bytes: None, injected_fault: false });
    }
    async fn delay(&self, ci: usize) {
        if self.plan.delays.is_empty() {
            return;
        }
        let n = self.plan.delays[ci % self.plan.delays.len()];
        for _ in 0..n {
            tokio::task::yield_now().await;
        }
        if n >= 3 {
            tokio::time::sleep(std::time::Duration::from_micros(200 * n as u64)).await;
        }
    }
}

#[async_trait]
impl UploadClient for TraceClient {
    async fn put(&self, prefix: &str, hash: &MerkleHash, data: Vec<u8>, chunk_and_boundaries: Vec<(MerkleHash, u32)>) -> Result<usize, CasClientError> {
        let mut prev = 0u32;
        let mut ok = true;
        let mut maxlen = 0usize;
        for (_, b) in &chunk_and_boundaries {
            if *b <= prev {
                ok = false;
            }
            maxlen = maxlen.max(b.saturating_sub(prev) as usize);
            prev = *b;
        }
        if prev as usize != data.len() {
            ok = false;
        }
        let call = Call::Put {
            hash: (*hash).into(),
            n_chunks: chunk_and_boundaries.len(),
            n_bytes: data.len(),
            boundaries_ok: ok,
            max_chunk_len: maxlen,
            empty: data.is_empty() || chunk_and_boundaries.is_empty(),
        };
        let (ci, fail) = self.begin(call.clone(), None);
        self.delay(ci).await;
        if fail {
            self.end(ci, call, Err("injected put failure".into()), true);
            return Err(CasClientError::Other("injected put failure".into()));
        }
        let r = self.inner.put(prefix, hash, data, chunk_and_boundaries).await;
        self.end(ci, call, r.as_ref().map(|v| *v as u64).map_err(|e| e.to_string()), false);
        r
    }
    async fn exists(&self, prefix: &str, hash: &MerkleHash) -> Result<bool, CasClientError> {
        self.inner.exists(prefix, hash).await
    }
}

#[async_trait]
impl VerifRegistrationClient for TraceClient {
    async fn upload_shard(&self, prefix: &str, hash: &MerkleHash, force_sync: bool, shard_data: &[u8], salt: &[u8; 32]) -> Result<bool, CasClientError> {
        let call = Call::UploadShard { hash: (*hash).into(), n_bytes: shard_data.len() };
        let (ci, fail) = self.begin(call.clone(), Some(Arc::new(shard_data.to_vec())));
        self.delay(ci).await;
        if fail {
            self.end(ci, call, Err("injected shard upload failure".into()), true);
            return Err(CasClientError::Other("injected shard upload failure".into()));
        }
        let r = self.inner.upload_shard(prefix, hash, force_sync, shard_data, salt).await;
        self.end(ci, call, r.as_ref().map(|v| *v as u64).map_err(|e| e.to_string()), false);
        r
    }
}

#[async_trait]
impl FileReconstructor<CasClientError> for TraceClient {
    async fn get_file_reconstruction_info(&self, file_hash: &MerkleHash) -> Result<Option<(MDBFileInfo, Option<MerkleHash>)>, CasClientError> {
        self.inner.get_file_reconstruction_info(file_hash).await
    }
}

#[async_trait]
impl VerifShardDedupProber for TraceClient {
    async fn query_for_global_dedup_shard(&self, prefix: &str, chunk_hash: &MerkleHash, salt: &[u8; 32]) -> Result<Option<PathBuf>, CasClientError> {
        let mut g = self.gd_lock.lock().await;
        let r = self.inner.query_for_global_dedup_shard(prefix, chunk_hash, salt).await?;
        let (Some(staged), Some(dir)) = (r.clone(), self.publish_dir.as_ref()) else { return Ok(r) };
        let name = staged.file_name().unwrap().to_string_lossy().to_string();
        let dest = dir.join(&name);
        if !dest.exists() {
            *g += 1;
            let tmp = dir.join(format!(".{name}.publish{}", *g));
            std::fs::copy(&staged, &tmp)?;
            std::fs::rename(&tmp, &dest)?;
        }
        Ok(Some(dest))
    }
}

#[async_trait]
impl ReconstructionClient for TraceClient {
    async fn get_file(
        &self,
        hash: &MerkleHash,
        byte_range: Option<FileRange>,
        output_provider: &OutputProvider,
        progress_updater: Option<Arc<dyn ProgressUpdater>>,
    ) -> Result<u64, CasClientError> {
        self.inner.get_file(hash, byte_range, output_provider, progress_updater).await
    }
}

impl ShardClientInterface for TraceClient {}
impl Client for TraceClient {}

// ---------------------------------------------------------------------------------------------
// history runner

pub fn threadpool() -> Arc<ThreadPool> {
    static TP: OnceLock<Arc<ThreadPool>> = OnceLock::new();
    TP.get_or_init(|| Arc::new(ThreadPool::new().expect("runtime"))).clone()
}

pub fn make_config(base: &Path, salt: [u8; 32], global_dedup: bool, client: u8, epoch: u32) -> Arc<TranslatorConfig> {
    make_config_peer(base, salt, global_dedup, client, epoch, false)
}

pub fn make_config_peer(base: &Path, salt: [u8; 32], global_dedup: bool, client: u8, epoch: u32, peer: bool) -> Arc<TranslatorConfig> {
    let store = base.join("store");
    std::fs::create_dir_all(&store).unwrap();
    let real = base.join(format!("client{client}-e{epoch}"));
    std::fs::create_dir_all(&real).unwrap();
    let cpath = if peer {
        // same directories, other path: process-global caches keyed by path give this session its own instances
        let alias = base.join(format!("peer{client}-e{epoch}"));
        if std::fs::symlink_metadata(&alias).is_err() {
            std::os::unix::fs::symlink(&real, &alias).unwrap();
        }
        alias
    } else {
        real
    };
    Arc::new(TranslatorConfig {
        data_config: DataConfig {
            endpoint: Endpoint::FileSystem(store),
            compression: Default::default(),
            auth: None,
            prefix: "default".into(),
            cache_config: CacheConfig { cache_directory: cpath.join("cache"), cache_size: 10 << 30 },
            staging_directory: None,
        },
        shard_config: ShardConfig {
            prefix: "default-merkledb".into(),
            cache_directory: cpath.join("shard-cache"),
            session_directory: cpath.join("shard-session"),
            global_dedup_policy: if global_dedup { GlobalDedupPolicy::Always } else { GlobalDedupPolicy::Never },
            repo_salt: salt,
        },
        repo_info: Some(RepoInfo { repo_paths: vec!["".into()] }),
    })
}

#[derive(Clone, Debug)]
pub struct FileObs {
    pub bytes: Arc<Vec<u8>>,
    /// reference chunking of the bytes: (hash, len)
    pub chunks: Vec<(H, u64)>,
    pub keys: Vec<u64>,
    pub n_calls: usize,
    pub add_err: Option<String>,
    pub finish: Result<(String, DeduplicationMetrics), String>,
}

#[derive(Clone, Debug)]
pub struct SessionObs {
    pub files: Vec<FileObs>,
    pub finalize: Result<(DeduplicationMetrics, Vec<MDBFileInfo>), String>,
    pub log: Vec<Event>,
    /// xorb file names in the store before / after the session
    pub xorbs_before: BTreeSet<String>,
    pub xorbs_after: BTreeSet<String>,
    pub shards_before: BTreeSet<String>,
    pub shards_after: BTreeSet<String>,
    pub cache_shards_after: BTreeSet<String>,
    pub cache_dir: PathBuf,
    pub client: u8,
}

pub struct HistoryObs {
    pub conf: Conf,
    pub sessions: Vec<SessionObs>,
    pub base: tempfile::TempDir,
    pub config: Arc<TranslatorConfig>,
    pub salt: [u8; 32],
}

impl HistoryObs {
    pub fn xorb_dir(&self) -> PathBuf {
        self.base.path().join("store/xorbs")
    }
    pub fn shard_dir(&self) -> PathBuf {
        self.base.path().join("store/shards")
    }
}

fn ls(dir: &Path) -> BTreeSet<String> {
    std::fs::read_dir(dir).map(|rd| rd.flatten().map(|e| e.file_name().to_string_lossy().to_string()).collect()).unwrap_or_default()
}

pub type AfterSession = Box<dyn FnMut(&HistoryObs, usize) -> Result<(), String> + Send>;

pub struct RunOpts {
    /// fault plan per session index (missing = none)
    pub plans: BTreeMap<usize, FaultPlan>,
    /// stop the history after the first session that does not finalize successfully
    pub stop_on_failure: bool,
    /// oracle hook evaluated after every session (store inspection between sessions)
    pub after_session: Option<AfterSession>,
}

impl Default for RunOpts {
    fn default() -> Self {
        RunOpts { plans: BTreeMap::new(), stop_on_failure: true, after_session: None }
    }
}

/// Run a history on the shared multi-thread runtime. `Err` = harness / infrastructure problem
/// (or a panic in the code under test, reported with its message).
pub fn run_history(h: &History, opts: RunOpts) -> Result<HistoryObs, String> {
    let tp = threadpool();
    let h = h.clone();
    let tp2 = tp.clone();
    match tp.external_run_async_task(async move { run_history_async(h, opts, tp2).await }) {
        Ok(r) => r,
        Err(e) => {
            let from_hook = crate::engine::LAST_PANIC_GLOBAL.lock().unwrap().take();
            let msg = from_hook.unwrap_or_else(|| format!("{e:?}"));
            Err(format!("[sig:{}] panic in code under test: {msg}", crate::engine::panic_signature(&msg)))
        },
    }
}

async fn clean_one(
    session: Arc<FileUploadSession>,
    name: String,
    bytes: Arc<Vec<u8>>,
    feed: Vec<(u8, u16)>,
    target: usize,
    yields: Vec<u8>,
) -> (usize, Option<String>, Result<(String, DeduplicationMetrics), String>) {
    let mut cleaner = session.start_clean(name);
    drop(session);
    let mut pos = 0usize;
    let mut n_calls = 0usize;
    let mut add_err = None;
    let mut sizes: Vec<usize> = feed.iter().map(|(k, m)| call_size(*k, *m, target)).collect();
    sizes.push(usize::MAX);
    for (i, sz) in sizes.into_iter().enumerate() {
        let end = pos.saturating_add(sz).min(bytes.len());
        if let Err(e) = cleaner.add_data(&bytes[pos..end]).await {
            add_err = Some(e.to_string());
            break;
        }
        n_calls += 1;
        pos = end;
        if !yields.is_empty() {
            for _ in 0..yields[i % yields.len()] {
                tokio::task::yield_now().await;
            }
        }
        if pos == bytes.len() && sz == usize::MAX {
            break;
        }
    }
    if add_err.is_some() {
        // the cleaner is dropped without finish(): the session will report the failure at finalize at the latest
        return (n_calls, add_err, Err("add_data failed".into()));
    }
    let fin = cleaner.finish().await.map(|(p, m)| (p.to_string(), m)).map_err(|e| e.to_string());
    (n_calls, add_err, fin)
}

async fn run_history_async(h: History, mut opts: RunOpts, tp: Arc<ThreadPool>) -> Result<HistoryObs, String> {
    let conf = Conf::active();
    let pool = Arc::new(ChunkPool::new(conf.params(), h.pool_seed));
    let base = tempfile::Builder::new().prefix("xvs-").tempdir_in(crate::engine::work_dir()).map_err(|e| format!("[sig:infra] tempdir: {e}"))?;
    let mut salt = [0u8; 32];
    Sm64(h.salt_seed).fill(&mut salt);
    let config0 = make_config(base.path(), salt, h.global_dedup, 0, 0);
    let mut epochs: BTreeMap<u8, u32> = BTreeMap::new();
    let mut obs = HistoryObs { conf: conf.clone(), sessions: Vec::new(), base, config: config0.clone(), salt };
    let xorb_dir = obs.xorb_dir();
    let shard_dir = obs.shard_dir();
    for (si, s) in h.sessions.iter().enumerate() {
        let plan = opts.plans.get(&si).cloned().unwrap_or_default();
        let epoch = epochs.entry(s.client).or_insert(0);
        if s.restart_before {
            let old = obs.base.path().join(format!("client{}-e{}", s.client, *epoch));
            if old.exists() {
                let new = obs.base.path().join(format!("client{}-e{}", s.client, *epoch + 1));
                std::fs::rename(&old, &new).map_err(|e| format!("[sig:infra] restart rename: {e}"))?;
                *epoch += 1;
            }
        }
        let config = make_config_peer(obs.base.path(), salt, h.global_dedup, s.client, *epoch, s.peer);
        obs.config = config.clone();
        let cache_dir = config.shard_config.cache_directory.clone();
        let store_path = match &config.data_config.endpoint {
            Endpoint::FileSystem(p) => p.clone(),
            _ => unreachable!(),
        };
        let staging = obs.base.path().join(format!("staging{si}"));
        if h.global_dedup {
            std::fs::create_dir_all(&staging).map_err(|e| format!("[sig:infra] staging: {e}"))?;
            std::fs::create_dir_all(&cache_dir).map_err(|e| format!("[sig:infra] cache dir: {e}"))?;
        }
        let local = LocalClient::new(&store_path, if h.global_dedup { Some(staging.clone()) } else { None }).map_err(|e| format!("[sig:infra] LocalClient::new: {e}"))?;
        let xorbs_before = ls(&xorb_dir);
        let shards_before = ls(&shard_dir);
        let client = Arc::new(TraceClient::new(local, plan, if h.global_dedup { Some(cache_dir.clone()) } else { None }));
        let session = FileUploadSession::verif_new_with_client(config.clone(), tp.clone(), client.clone()).await.map_err(|e| format!("[sig:infra] session set-up: {e}"))?;
        // materialise the files
        let mut prepared = Vec::new();
        for f in &s.files {
            let bytes = Arc::new(f.bytes(&pool, h.n_ids));
            let chunks: Vec<(H, u64)> = rc::chunks(&bytes, &conf.params()).iter().map(|c| (rm::chunk_hash(c), c.len() as u64)).collect();
            prepared.push((bytes, chunks, f.keys(h.n_ids)));
        }
        let mut results: Vec<Option<(usize, Option<String>, Result<(String, DeduplicationMetrics), String>)>> = (0..s.files.len()).map(|_| None).collect();
        if s.concurrent && s.files.len() > 1 {
            let mut js = tokio::task::JoinSet::new();
            for (fi, f) in s.files.iter().enumerate() {
                let sess = session.clone();
                let bytes = prepared[fi].0.clone();
                let feed = f.feed.clone();
                let yields = s.yields.clone();
                let target = conf.target();
                js.spawn(async move { (fi, clean_one(sess, format!("f{fi}"), bytes, feed, target, yields).await) });
            }
            while let Some(r) = js.join_next().await {
                match r {
                    Ok((fi, res)) => results[fi] = Some(res),
                    Err(e) => {
                        let from_hook = crate::engine::LAST_PANIC_GLOBAL.lock().unwrap().take();
                        let msg = from_hook.unwrap_or_else(|| format!("{e:?}"));
                        return Err(format!("[sig:{}] panic in code under test (concurrent clean): {msg}", crate::engine::panic_signature(&msg)));
                    },
                }
            }
        } else {
            let mut aborted = false;
            for (fi, f) in s.files.iter().enumerate() {
                if aborted {
                    // the caller stops at the first error, as the library's own upload driver does
                    results[fi] = Some((0, None, Err("not cleaned: the caller aborted after an earlier error".into())));
                    continue;
                }
                let r = clean_one(session.clone(), format!("f{fi}"), prepared[fi].0.clone(), f.feed.clone(), conf.target(), vec![]).await;
                aborted = r.1.is_some() || r.2.is_err();
                results[fi] = Some(r);
            }
        }
        let caller_saw_error = results.iter().any(|r| r.as_ref().map(|x| x.1.is_some() || x.2.is_err()).unwrap_or(true));
        let finalize = if caller_saw_error {
            // a caller that got an error from add_data / finish does not finalize the session
            drop(session);
            Err("not finalized: the caller aborted after an error from add_data / finish".to_string())
        } else {
            client.mark("finalize-start");
            let r = session.finalize_with_file_info().await.map_err(|e| e.to_string());
            client.mark("finalize-end");
            r
        };
        let log = std::mem::take(&mut *client.log.lock().unwrap());
        let files: Vec<FileObs> = results
            .into_iter()
            .enumerate()
            .map(|(fi, r)| {
                let (n_calls, add_err, finish) = r.unwrap();
                FileObs { bytes: prepared[fi].0.clone(), chunks: prepared[fi].1.clone(), keys: prepared[fi].2.clone(), n_calls, add_err, finish }
            })
            .collect();
        let failed = finalize.is_err() || files.iter().any(|f| f.finish.is_err());
        obs.sessions.push(SessionObs {
            files,
            finalize,
            log,
            xorbs_before,
            xorbs_after: ls(&xorb_dir),
            shards_before,
            shards_after: ls(&shard_dir),
            cache_shards_after: ls(&cache_dir),
            cache_dir: cache_dir.clone(),
            client: s.client,
        });
        if let Some(cb) = opts.after_session.as_mut() {
            cb(&obs, si)?;
        }
        if failed && opts.stop_on_failure {
            break;
        }
    }
    Ok(obs)
}

/// Download a file (full or ranged) through the public downloader; returns (bytes, reported length).
pub fn download(config: Arc<TranslatorConfig>, pointer_text: &str, range: Option<(u64, u64)>) -> Result<(Vec<u8>, u64), String> {
    let tp = threadpool();
    let tp2 = tp.clone();
    let text = pointer_text.to_string();
    let out = tempfile::Builder::new().prefix("xvd-").tempfile_in(crate::engine::work_dir()).map_err(|e| e.to_string())?;
    let out_path = out.path().to_path_buf();
    let r = tp.external_run_async_task(async move {
        let pf = PointerFile::init_from_string(&text, "");
        if !pf.is_valid() {
            return Err(format!("[sig:pointer-invalid] pointer file text does not parse back as a valid pointer: {text:?}"));
        }
        let dl = FileDownloader::new(config, tp2).await.map_err(|e| format!("[sig:infra] downloader set-up: {e}"))?;
        let provider = OutputProvider::File(FileProvider::new(out_path.clone()));
        let n = dl
            .smudge_file_from_pointer(&pf, &provider, range.map(|(a, b)| FileRange { start: a, end: b }), None)
            .await
            .map_err(|e| format!("[sig:download-error] download failed: {e}"))?;
        Ok(n)
    });
    match r {
        Ok(Ok(n)) => {
            let bytes = std::fs::read(out.path()).map_err(|e| e.to_string())?;
            Ok((bytes, n))
        },
        Ok(Err(e)) => Err(e),
        Err(e) => {
            let from_hook = crate::engine::LAST_PANIC_GLOBAL.lock().unwrap().take();
            let msg = from_hook.unwrap_or_else(|| format!("{e:?}"));
            Err(format!("[sig:{}] panic in code under test (download): {msg}", crate::engine::panic_signature(&msg)))
        },
    }
}

/// Several downloads through one downloader instance (one store client); each request is
/// (pointer text, optional byte range) and yields (bytes, reported length) or an error text.
pub fn download_batch(config: Arc<TranslatorConfig>, reqs: Vec<(String, Option<(u64, u64)>)>) -> Result<Vec<Result<(Vec<u8>, u64), String>>, String> {
    let tp = threadpool();
    let tp2 = tp.clone();
    let dir = tempfile::Builder::new().prefix("xvd-").tempdir_in(crate::engine::work_dir()).map_err(|e| e.to_string())?;
    let dpath = dir.path().to_path_buf();
    let r = tp.external_run_async_task(async move {
        let dl = FileDownloader::new(config, tp2).await.map_err(|e| format!("[sig:infra] downloader set-up: {e}"))?;
        let mut out = Vec::new();
        for (i, (text, range)) in reqs.into_iter().enumerate() {
            let pf = PointerFile::init_from_string(&text, "");
            if !pf.is_valid() {
                out.push(Err(format!("[sig:pointer-invalid] pointer file text does not parse back as a valid pointer: {text:?}")));
                continue;
            }
            let path = dpath.join(format!("o{i}"));
            let provider = OutputProvider::File(FileProvider::new(path.clone()));
            match dl.smudge_file_from_pointer(&pf, &provider, range.map(|(a, b)| FileRange { start: a, end: b }), None).await {
                Ok(n) => match std::fs::read(&path) {
                    Ok(b) => out.push(Ok((b, n))),
                    Err(e) => out.push(Err(format!("[sig:download-no-output] download reported success but wrote no file: {e}"))),
                },
                Err(e) => out.push(Err(format!("[sig:download-error] download failed: {e}"))),
            }
            let _ = std::fs::remove_file(&path);
        }
        Ok::<_, String>(out)
    });
    match r {
        Ok(v) => v,
        Err(e) => {
            let from_hook = crate::engine::LAST_PANIC_GLOBAL.lock().unwrap().take();
            let msg = from_hook.unwrap_or_else(|| format!("{e:?}"));
            Err(format!("[sig:{}] panic in code under test (download): {msg}", crate::engine::panic_signature(&msg)))
        },
    }
}

/// parse the hash / size out of pointer file text with an independent mini-parser
pub fn parse_pointer(text: &str) -> Option<(String, u64)> {
    let mut hash = None;
    let mut size = None;
    for line in text.lines() {
        let l = line.trim();
        if let Some(rest) = l.strip_prefix("hash") {
            let v = rest.trim_start().strip_prefix('=')?.trim().trim_matches(|c| c == '\'' || c == '"');
            hash = Some(v.to_string());
        } else if let Some(rest) = l.strip_prefix("filesize") {
            let v = rest.trim_start().strip_prefix('=')?.trim();
            size = v.parse::<u64>().ok();
        }
    }
    Some((hash?, size?))
}
