//! small helpers shared by property modules

use std::pin::Pin;
use std::task::{Context, Poll};

/// futures::io::AsyncRead over a byte slice that returns at most the generated number of bytes per
/// read (cycling through `sizes`), so stream parsers see arbitrary read fragmentation.
pub struct SlowReader<'a> {
    data: &'a [u8],
    pos: usize,
    sizes: Vec<usize>,
    k: usize,
}

impl<'a> SlowReader<'a> {
    pub fn new(data: &'a [u8], sizes: Vec<usize>) -> Self {
        SlowReader { data, pos: 0, sizes: if sizes.is_empty() { vec![usize::MAX] } else { sizes }, k: 0 }
    }
}

impl futures::io::AsyncRead for SlowReader<'_> {
    fn poll_read(mut self: Pin<&mut Self>, _cx: &mut Context<'_>, buf: &mut [u8]) -> Poll<std::io::Result<usize>> {
        let lim = self.sizes[self.k % self.sizes.len()].max(1);
        self.k += 1;
        let n = buf.len().min(lim).min(self.data.len() - self.pos);
        let p = self.pos;
        buf[..n].copy_from_slice(&self.data[p..p + n]);
        self.pos += n;
        Poll::Ready(Ok(n))
    }
}
