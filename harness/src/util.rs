//! small helpers shared by property modules

use std::pin::Pin;
use std::task::{Context, Poll};

/// futures::io::AsyncRead over a byte slice that returns at most the generated number of bytes per
/// read (cycling through `sizes`), so stream parsers see arbitrary read fragmentation.
pub struct SlowReader<'a> {
    data: &'a [u8],
    pos: usize,
    sizes: Vec<usize>,
    k: usize,
}

impl<'a> SlowReader<'a> {
    pub fn new(data: &'a [u8], sizes: Vec<usize>) -> Self {
        SlowReader { data, pos: 0, sizes: if sizes.is_empty() { vec![usize::MAX] } else { sizes }, k: 0 }
    }
}

impl futures::io::AsyncRead for SlowReader<'_> {
    fn poll_read(mut self: Pin<&mut Self>, _cx: &mut Context<'_>, buf: &mut [u8]) -> Poll<std::io::Result<usize>> {
        let lim = self.sizes[self.k % self.sizes.len()].max(1);
        self.k += 1;
        let n = buf.len().min(lim).min(self.data.len() - self.pos);
        let p = self.pos;
        buf[..n].copy_from_slice(&self.data[p..p + n]);
        self.pos += n;
        Poll::Ready(Ok(n))
    }
}

// ---------------------------------------------------------------------------------------------
// counting allocator: per-thread largest single request while armed; refuses (=> abort, caught by
// the worker journal) requests above the cap so an unbounded allocation becomes a visible event
// instead of an OOM kill.

pub mod alloc_guard {
    use std::alloc::{GlobalAlloc, Layout, System};
    use std::cell::Cell;

    thread_local! {
        static ARMED_CAP: Cell<usize> = const { Cell::new(0) };
        static MAX_REQ: Cell<usize> = const { Cell::new(0) };
        static TOTAL_REQ: Cell<usize> = const { Cell::new(0) };
    }

    pub struct CountingAlloc;

    #[inline]
    fn note(size: usize) -> bool {
        // returns false if the request must be refused
        let cap = ARMED_CAP.try_with(|c| c.get()).unwrap_or(0);
        if cap != 0 {
            let _ = MAX_REQ.try_with(|m| {
                if size > m.get() {
                    m.set(size)
                }
            });
            let _ = TOTAL_REQ.try_with(|t| t.set(t.get().saturating_add(size)));
            if size > cap {
                let msg = b"ALLOC-CAP single allocation request above the cap\n";
                unsafe {
                    libc::write(2, msg.as_ptr() as *const libc::c_void, msg.len());
                }
                return false;
            }
        }
        true
    }

    unsafe impl GlobalAlloc for CountingAlloc {
        unsafe fn alloc(&self, layout: Layout) -> *mut u8 {
            if !note(layout.size()) {
                return std::ptr::null_mut();
            }
            System.alloc(layout)
        }
        unsafe fn dealloc(&self, ptr: *mut u8, layout: Layout) {
            System.dealloc(ptr, layout)
        }
        unsafe fn alloc_zeroed(&self, layout: Layout) -> *mut u8 {
            if !note(layout.size()) {
                return std::ptr::null_mut();
            }
            System.alloc_zeroed(layout)
        }
        unsafe fn realloc(&self, ptr: *mut u8, layout: Layout, new_size: usize) -> *mut u8 {
            if !note(new_size) {
                return std::ptr::null_mut();
            }
            System.realloc(ptr, layout, new_size)
        }
    }

    /// arm on this thread: requests above `hard_cap` abort the process; returns nothing
    pub fn arm(hard_cap: usize) {
        MAX_REQ.with(|m| m.set(0));
        TOTAL_REQ.with(|m| m.set(0));
        ARMED_CAP.with(|c| c.set(hard_cap));
    }
    /// disarm; returns (largest single request, sum of requests) seen while armed
    pub fn disarm() -> (usize, usize) {
        ARMED_CAP.with(|c| c.set(0));
        (MAX_REQ.with(|m| m.get()), TOTAL_REQ.with(|m| m.get()))
    }
}
