#!/bin/bash
# tools/seed_regress.sh [dirs...] : re-run every stored seeded change (seeded/<ID>[-b]/patch.diff) against the quick
# check of its property, in the scratch worktree (never in /repo). Prints one CAUGHT/MISSED line per seed.
cd /verif
DIRS="${@:-$(ls -d seeded/C*)}"
for d in $DIRS; do
  id=$(basename $d | cut -c1-3)
  r=$(tools/mut.sh /verif/$d/patch.diff -- $id 2>&1 | grep -E "^(CAUGHT|MISSED|INCONCLUSIVE|MUTATION|error)" | cut -c1-260)
  echo "$(basename $d): ${r:-NO-RESULT}"
done
