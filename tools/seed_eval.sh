#!/bin/bash
# tools/seed_eval.sh <ID> [check ids...] : confirm a sub-agent's seeded change and run our checks against it
set -u
ID=$1; shift
CHECKS="${@:-$ID}"
R=${SEED_ROOT:-/tmp/seed}; WT=$R/$ID; OUT=$R/$ID-out; TGT=$R/$ID-target
cd $WT || exit 2
echo "== $ID: patch"; git diff --stat | tail -3
if ! diff <(git diff) $OUT/patch.diff >/dev/null; then echo "NOTE: worktree diff differs from patch.diff"; fi
echo "== demo WITH change (expect failure)"
( CARGO_TARGET_DIR=$TGT CARGO_NET_OFFLINE=true bash $OUT/demo.sh >$R/$ID-demo-with.log 2>&1 ); echo "exit=$?"
git apply -R $OUT/patch.diff   # (not git stash: the stash is shared between worktrees)
echo "== demo WITHOUT change (expect success)"
( CARGO_TARGET_DIR=$TGT CARGO_NET_OFFLINE=true bash $OUT/demo.sh >$R/$ID-demo-without.log 2>&1 ); echo "exit=$?"
git apply $OUT/patch.diff
git status --short | head -5
