#!/bin/bash
# tools/seed_fuzz.sh <seed-id> [scale]: apply a seeded patch to /repo, run only the libFuzzer campaign of that property, replay the result, undo
set -u
S=$1; SC=${2:-10}
cd /repo || exit 2
if ! git diff --quiet; then echo "/repo has uncommitted changes"; exit 2; fi
git apply /verif/seeded/$S/patch.diff || exit 2
export XV_OUT=/tmp/xv-seed-out/$S-fuzz; rm -rf $XV_OUT; mkdir -p $XV_OUT
t0=$(date +%s)
out=$(cd /verif && XV_ONLY_FUZZ=1 XV_FUZZ_SCALE=$SC ./check $S --tier thorough 2>&1); rc=$?
t1=$(date +%s)
echo "fuzz-only rc=$rc ($((t1-t0))s): $(echo "$out" | grep -A1 '^VIOLATION' | head -2 | tr '\n' ' ' | cut -c1-400)"
rp=$(echo "$out" | grep '^VIOLATION' | head -1 | sed 's/.*replay=//')
if [ -n "$rp" ]; then
  (cd /verif && ./check $S --replay $rp 2>&1 | grep -E "^VIOLATION|tier=" | head -2; echo "replay-with-change rc=${PIPESTATUS[0]}")
  git -C /repo checkout -- .
  (cd /verif && ./check $S --replay $rp 2>&1 | grep -E "^VIOLATION|tier=" | head -2; echo "replay-without-change rc=${PIPESTATUS[0]}")
fi
git -C /repo checkout -- .
