#!/bin/bash
# tools/benign_fuzz.sh <patch> <ID> [scale]: apply a behaviour-preserving patch to /repo, run only the
# libFuzzer campaign of that property (expecting silence), undo
set -u
P=$(readlink -f $1); ID=$2; SC=${3:-10}
cd /repo || exit 2
if ! git diff --quiet; then echo "/repo has uncommitted changes"; exit 2; fi
git apply $P || exit 2
export XV_OUT=/tmp/xv-benign-out/$ID-fuzz; rm -rf $XV_OUT; mkdir -p $XV_OUT
t0=$(date +%s)
out=$(cd /verif && XV_ONLY_FUZZ=1 XV_FUZZ_SCALE=$SC ./check $ID --tier thorough 2>&1); rc=$?
t1=$(date +%s)
echo "$ID fuzz-only rc=$rc ($((t1-t0))s): $(echo "$out" | grep -E '^VIOLATION|tier=' | head -2 | tr '\n' ' ' | cut -c1-300)"
git -C /repo checkout -- .
