#!/usr/bin/env python3
"""Regenerates /verif/MANIFEST.json from the table below (single source of truth)."""
import json, sys

CHECKS = {
 "C04": dict(level="exploration", design="3/C04",
   technique="property-based testing: seeded proptest generators over byte-stream recipes and call partitions, differential against an independent reference gear chunker, metamorphic locality relation; thorough tier adds coverage-guided fuzzing: libFuzzer (cargo-fuzz) target chunker_diff with the same oracle inside the target, fixed -runs in 8 processes, crash = shrunk replay + VIOLATION",
   text="Generated-input search (tens of thousands of streams x call partitions per run, power-of-two targets 2^7..2^16, and 2^14..2^27 with multi-maximum-chunk streams in the large-target stream) compared boundary-for-boundary with an independently written reference chunker and chunk hash; exploration is the right level because the property quantifies over unbounded byte streams and call partitions, which can only be sampled - the reference rule makes each sample a full functional check rather than a self-consistency check.",
   note="Trusts: the reference chunker in harness/src/refs/chunker.rs (written from the documented rule), the gear table data of the gearhash crate, the blake3 crate. Divisor/multiplier fixed at the shipped 8 and 2."),
 "C06": dict(level="exploration", design="3/C06",
   technique="property-based testing: seeded proptest generators over chunk lists / byte strings / hash text, differential against an independent Merkle reference and across all in-repo code paths, metamorphic change/swap/insert/drop relations, committed golden vectors; thorough tier adds coverage-guided fuzzing: libFuzzer (cargo-fuzz) target hash_text and merkle_tree with the same oracle inside the target, fixed -runs in 8 processes, crash = shrunk replay + VIOLATION",
   text="Every generated chunk list is hashed through every code path (uploader, both validators' path, file/xorb/range/salt/HMAC helpers, streaming hasher) and compared with an independently written implementation of the published construction plus golden vectors; exploration because the quantifier is over all lists/strings, sampled with engineered branching words, repeats and extreme lengths.",
   note="Trusts the reference in harness/src/refs/merkle.rs and the blake3 crate. Precondition: equal chunk hash implies equal length; all-zero leaf hashes excluded (BLAKE3 preimage)."),
 "C07": dict(level="exploration", design="3/C07",
   technique="property-based testing: seeded proptest generators over chunk lists x compression scheme, round trip against the input plus differential against an independent reference xorb decoder and across the sync / async / stream decoders; exhaustive small lengths for BG4; thorough tier adds coverage-guided fuzzing: libFuzzer (cargo-fuzz) target xorb_roundtrip (incl. the stream decoder under input-derived fragmentation) with the same oracle inside the target, fixed -runs in 8 processes, crash = shrunk replay + VIOLATION",
   text="Round trip of generated xorbs (all schemes, all byte classes, every chunk range on small objects) checked against the original data, an independently written decoder that re-derives physical boundaries and footer, and pairwise decoder agreement under generated stream fragmentation; exploration because chunk lists and contents are unbounded.",
   note="Trusts lz4_flex frame coding (shared with the reference decoder) and harness/src/refs/xorb.rs."),
 "C08": dict(level="exploration", design="3/C08",
   technique="property-based testing / structured mutation fuzzing: generated mutation programs (region-addressed byte flips, truncation, record splices, inflated counts and lengths, stale or rebuilt footers) over valid xorbs plus random inputs, oracle = independent reference decoder (acceptance implies consistency; canonical objects must be accepted), panics caught, allocation cap enforced by a counting allocator in journaled child processes; thorough tier adds coverage-guided fuzzing: libFuzzer (cargo-fuzz) target xorb_validate (seeded with valid objects, structure-aware splice selector) with the same oracle inside the target, fixed -runs in 8 processes, crash = shrunk replay + VIOLATION",
   text="Each generated (object, claimed hash) pair is run through both validators and the footer parser; acceptance is checked against a reference decoder's view of decodability, recomputed hash and footer consistency, canonical valid objects must be accepted for their own hash only, and panics / oversized allocation requests are violations. Exploration: mutation space is sampled with region-aware generators rather than enumerated.",
   note="Trusts harness/src/refs/xorb.rs and lz4_flex. The streaming validator is allowed to ignore version-0 footers and accept footer-less objects (documented behaviour); zero-chunk objects are outside the valid-object clause."),
 "C05": dict(level="exploration", design="3/C05",
   technique="property-based testing: seeded proptest generators over xorb universes with engineered 64-bit prefix collisions, query runs (present / absent / partial / past-the-end / adversarial header hash) and ShardFileManager operation histories incl. HMAC-keyed exports; oracle = map model of the universe (soundness of positive answers); model-based testing of FileDeduper against a data interface that is truthful by construction, in child processes with MAX_XORB_CHUNKS 3 / 8192 / 200000 and boundary-biased run lengths and repeat positions (2^k-1 / 2^k / 2^k+1 up to 140000)",
   text="Every positive dedup answer from the in-memory index, a serialized shard and shard-manager histories (flush, planted plain and keyed shards under up to 3 keys and all include flags, re-open, consolidation) is checked against the universe of xorbs: named xorb exists, range fits, hashes equal the query prefix, byte count is the sum; the same is demanded of every segment of the file record FileDeduper builds from index hits, partly consumed hits and references into the xorb it is building. Exploration over generated contents/histories; hit rate on expected-present runs is reported to expose vacuity.",
   note="Soundness only (completeness is C11's subject). Queries non-empty. Trusts the map model in harness/src/props/c05.rs."),
 "C09": dict(level="exploration", design="3/C09",
   technique="property-based testing: seeded proptest generators over shard contents with engineered truncated keys (extremes, clusters, up to 7 per prefix) and raw sorted tables with duplicate runs; oracle = the map model the shard was built from and a linear-scan model of the on-disk search; reader differential (seekable / streaming sync+async / minimal); thorough tier adds coverage-guided fuzzing: libFuzzer (cargo-fuzz) target sorted_search with the same oracle inside the target, fixed -runs in 8 processes, crash = shrunk replay + VIOLATION",
   text="Generated shards (0..3000 files, 0..600 xorbs) are serialized and every key, same-prefix / neighbouring / random absent key, every scan and every reader is compared with the model maps; the interpolation search is separately compared with a linear scan on tables up to 6000 entries and with a binary search on tables of up to 200000 entries whose counts are biased to 2^16 and 2^k-1 / 2^k / 2^k+1. Exploration because contents are unbounded; generators are built to cross the 256-entry read window and to collide prefixes.",
   note="Contents are sets of distinct keys; at most 7 records per truncated prefix (documented lookup limit). Trusts the model in harness/src/gen/shard.rs."),
 "C10": dict(level="exploration", design="3/C10",
   technique="property-based testing: seeded proptest generators over overlapping shard pairs (shared files with incomparable flag sets, shared xorbs, prefix collisions) and directory histories of shard files; oracle = map-model union / difference and record-set invariants over consolidation; differential cursor / file / in-memory implementations",
   text="Set operations on generated pairs are compared record-for-record with a model union/difference, every output record is looked up through the rebuilt tables, tables and totals are recomputed; generated session directories are consolidated under generated thresholds and the record set, returned paths (named by content hash), deletions and untouched files are checked. Exploration over pairs/directories.",
   note="Inputs unkeyed; same file hash implies same segments; optional sections agree where both present. Threshold <= 64 MiB (the routine pre-allocates buffers of the threshold size)."),
 "C18": dict(level="exploration", design="3/C18",
   technique="property-based testing: seeded proptest generators over shard contents x keys x include flags x validity; oracle = field-wise model of the keyed export with an independent HMAC, differential of shard managers over original vs exported shards (parts under different keys in one directory), including shards with a xorb of up to 70000 chunks queried around chunk 65535, expiry predicates over generated footers with clock margin",
   text="Every export is parsed and compared field-wise with the model (chunk hashes keyed by an independent keyed-BLAKE3, nothing else changed, tables iff requested and recomputed, footer key/timestamps/totals), manager answers to unkeyed queries must equal those over the original shards, and load/clean decisions are checked on both sides of both thresholds. Exploration over contents/keys/flags/timestamps.",
   note="Expiry cases keep 100 s margin around the wall clock. Manager differential uses universes with pairwise distinct chunk hashes (otherwise the truthful answer is not unique)."),
 "C01": dict(level="exploration", design="3/C01",
   technique='property-based testing: seeded proptest generators over configurations x multi-session histories of chunk-pool files (controlled internal / cross-file / cross-session duplication, multiple clients sharing the store, restarts), round-trip oracle (download full + ranges = fed bytes)',
   text='Generated histories (1-4 sessions, 1-6 files, dedup structure chosen by the generator, all size limits varied per child process) are uploaded and every file - including those of earlier sessions after each later session - is downloaded in full and over generated byte ranges and compared with the fed bytes. Exploration: the input space (contents x histories x configurations x interleavings) is sampled with generators built to hit shard hits, in-xorb self references, merged aggregators and limit-sized xorbs.',
   note="Runs through the repository's local file-system store (LocalClient) wrapped in a tracing client injected through the guarded hook; configurations are process environments (debug-assertion builds read the size constants from HF_XET_*). Concurrent cleaning samples OS schedules."),
 "C02": dict(level="exploration", design="3/C02",
   technique='property-based testing: same history generators; oracle = independent store validator (reference xorb decoder, reference Merkle / range hashes, sha2) run after every session over all stored xorbs and uploaded shard records',
   text="After each generated session an independent validator recomputes every stored xorb's hash from decoded chunks, checks every file record of every uploaded shard and of finalize_with_file_info for existing xorbs, in-range indices, byte sums, file hash, verification hashes and SHA-256 of the original bytes. Exploration over sessions/configurations.",
   note="Runs through the repository's local file-system store (LocalClient) wrapped in a tracing client injected through the guarded hook; configurations are process environments (debug-assertion builds read the size constants from HF_XET_*). Concurrent cleaning samples OS schedules."),
 "C03": dict(level="exploration", design="3/C03",
   technique='property-based testing: metamorphic contexts (partitions, neighbours, concurrency, prior store contents, clients, restarts, global dedup, two salts) around one generated content; oracle = reference chunker + reference Merkle file hash pins the value',
   text="One content is cleaned in 3-6 generated contexts per case and configurations vary per process; the pointer's size must equal the byte count and its hash the reference file hash of the bytes, which makes all contexts and processes agree by construction of the oracle; two salts must differ. Exploration over contents/contexts/configurations.",
   note="Runs through the repository's local file-system store (LocalClient) wrapped in a tracing client injected through the guarded hook; configurations are process environments (debug-assertion builds read the size constants from HF_XET_*). Concurrent cleaning samples OS schedules."),
 "C11": dict(level="exploration", design="3/C11",
   technique="property-based testing: generated upload / re-upload histories (same, extended, recombined content; simulated client restarts); oracle = structural inclusion of every new xorb's chunk list in the client's cached shards + bound on new_bytes from the set of chunks already in the store",
   text="After every session each newly stored xorb must be fully recorded in a shard of the client's shard cache, and every later session may only report as new the bytes of chunk occurrences absent from the store plus those withheld by fragmentation prevention; pure re-uploads report 0 and create no xorb. Exploration over histories/configurations.",
   note="Runs through the repository's local file-system store (LocalClient) wrapped in a tracing client injected through the guarded hook; configurations are process environments (debug-assertion builds read the size constants from HF_XET_*). Concurrent cleaning samples OS schedules."),
 "C14": dict(level="exploration", design="3/C14",
   technique='property-based testing: fragmentation-biased histories under small estimator windows with generated completion delays; oracle = conservation laws over per-file and session metrics and the store call log of the tracing client',
   text='For every generated session the per-file laws (size = total = fed bytes, new + deduped = total, withheld <= new, chunk counts) and the session laws (sums over files, xorb/shard upload bytes equal what the store received) are checked against an independent chunk count and the recorded store calls. Exploration over histories/configurations/delays.',
   note="Runs through the repository's local file-system store (LocalClient) wrapped in a tracing client injected through the guarded hook; configurations are process environments (debug-assertion builds read the size constants from HF_XET_*). Concurrent cleaning samples OS schedules."),
 "C15": dict(level="exploration", design="3/C15",
   technique='property-based testing: limit-seeking generators (files at MAX_XORB_CHUNKS-1/=/+1 chunks, constant chunks filling MAX_XORB_BYTES exactly / one past, many small files, concurrent completion); oracle = limit predicates on every put argument seen by the tracing client + validator acceptance + no zero xorb hash in emitted records',
   text='Every xorb handed to the store in generated sessions is checked against the configured limits and the wire-format bounds, stored objects must pass validate_cas_object, and no emitted file record may carry an unresolved xorb reference. Exploration; generators derive sizes from the active configuration so limits are hit exactly.',
   note="Runs through the repository's local file-system store (LocalClient) wrapped in a tracing client injected through the guarded hook; configurations are process environments (debug-assertion builds read the size constants from HF_XET_*). Concurrent cleaning samples OS schedules."),
 "C16": dict(level="fault_enumeration", design="3/C16",
   technique='fault injection with enumeration: for each generated scenario every single store call (put / upload_shard) of the session fails in turn (exhaustive per scenario), plus generated multi-fault sets and completion delays under concurrent cleaning; oracle = ordering invariant over the call log (shard only after its xorbs), error propagation, success implies downloadable',
   text='Per generated scenario the fault-free run fixes the list of store calls and each is then failed once (exhaustive over single faults), with further random multi-fault / delay plans; the call log must show every shard upload preceded by successful puts of all xorbs its records reference, an injected failure must surface as an error of add_data / finish / finalize, and a session reporting success must download byte-exactly. Fault enumeration is the right level: the property quantifies over which call fails.',
   note="Runs through the repository's local file-system store (LocalClient) wrapped in a tracing client injected through the guarded hook; configurations are process environments (debug-assertion builds read the size constants from HF_XET_*). Concurrent cleaning samples OS schedules."),
 "C12": dict(level="exploration", design="3/C12",
   technique='property-based testing with stateful histories: generated put / get / re-open / damage programs (bit bursts, truncation, extension, deletions, junk and cache-item-shaped names at every directory level, renames, swaps, identity-preserving range forgeries) and concurrent batches under a harness-owned schedule (guarded schedule points); plus a stream of items with up to 140000 chunks whose counts, start indices and sub-range reads are biased to 2^k-1 / 2^k / 2^k+1; oracle = virtual-xorb model (every chunk a pure function of key and index), panics caught, journaled child processes',
   text="Every hit returned during generated histories (sequential, and 2-3 threads interleaved by generated schedules) must equal the slice of the key's virtual xorb; damaged / planted / renamed entries must turn into misses or errors after re-open; initialize, put and get must not panic. Exploration over histories, damage programs and schedules.",
   note='Forged entries (renamed / planted under a name that keeps the length+CRC identity but claims another range): the content of hits cannot be judged by any implementation of this format, so after a forge only panics are judged (stream forged). The cache crate is built without its debug-only assertions (production semantics). Interleavings at schedule-point granularity.'),
 "C13": dict(level="exploration", design="3/C13",
   technique='schedule-controlled concurrency testing: generated operation batches for 2-3 threads run under generated schedules (one thread at a time, schedule = shrinkable Vec<u8>), plus bounded-exhaustive enumeration of ALL grant sequences for five canonical racing pairs; oracle = accounting invariants from the guarded read-only snapshot and the directory listing at every quiescent point',
   text='At every quiescent point the reported item count and byte total must equal the tracked entries, every cache file on disk must be tracked, after reading entries back totals must equal the files on disk (entries that lost their file to a racing deletion excepted, as the property allows), and the byte total never exceeds the capacity after a put; re-opening with the same capacity preserves this. Canonical pairs are enumerated exhaustively at schedule-point granularity, larger batches are sampled.',
   note='Interleavings at the granularity of the guarded schedule points (outside the state lock, around every file-system effect), not instructions. Eviction choice seeded through the guarded hook. No item larger than the capacity.'),
 "C17": dict(level="exploration", design="3/C17",
   technique='property-based testing: generated reconstruction plans (terms, enclosing fetch ranges, byte ranges trimmed as a server does) executed by RemoteClient against an in-process HTTP range server with generated response delays; oracle = slice of concatenated term data; differential sequential vs parallel writer and no-cache / cold / warm cache; NUM_CONCURRENT_RANGE_GETS varied per child process; a stream of files and byte ranges of 2^32 +- delta bytes compared term by term from disk',
   text='Each generated plan is reconstructed four times (both writers, cache off / cold / warm) and the output file and reported length are compared with the requested slice of the concatenated term data computed independently. Exploration over plans, byte ranges, delays and concurrency settings.',
   note='URLs unique per (xorb, fetch range); byte ranges inside the file; loopback HTTP server stands in for the blob store; completion orders perturbed, not enumerated.'),
 "C19": dict(level="fault_enumeration", design="3/C19",
   technique='crash-point enumeration by system-call fault injection: the operation runs in a single-threaded child under strace; a dry run lists every mutating file-system call after a marker, then the child is re-run once per call with SIGKILL injected at the entry of exactly that call; oracle = recovery invariants evaluated on the re-opened directory (names match content, prior records retrievable, re-open succeeds)',
   text="For each generated scenario (operation x prior history) EVERY point between two file-system effects of the operation is exercised - the process is killed at the entry of each mutating system call in turn - and the directory is then re-opened and checked. Exhaustive per scenario over crash points under exactly the property's crash model; scenarios are sampled.",
   note='Process-stop model only (completed system calls persist). Relies on strace 6.1 injection semantics; each injected run is re-traced and must have died at the intended call, otherwise the point is skipped and counted.'),
 "C20": dict(level="exploration", design="3/C20",
   technique='property-based testing of event scripts: calls / gate releases / yields on a current-thread runtime with a paused virtual clock and a generated plan of yields at guarded points inside Group::work (deterministic, hangs detected by a virtual 1-hour timeout), and the same scripts on 2-4 worker multi-thread runtimes (liveness there by relative progress, no time threshold); plus flights joined by up to 140000 callers with counts biased to 2^8 / 2^16 / 2^17 and neighbours on the paused clock; oracle = invariants over the logged call intervals, task starts and task execution intervals (no two executions for one key overlap)',
   text="Each script's event log is checked: one task start per owning call, owners get their own outcome, every waiter's result is the outcome of an overlapping owner of the same key (value, error payload or panic notification), executions of two tasks of one key never overlap, nobody hangs. Exploration over scripts and yield plans; liveness is decided on the virtual clock.",
   note='Callers are not cancelled. Mode B samples OS schedules; there a caller counts as waiting forever only by relative progress (all gates released, all started tasks finished, several rounds of fresh tasks and flights completed by the same runtime meanwhile), which assumes tokio polls a woken task before an unbounded number of later-spawned ones; a plain time limit is inconclusive (exit 2).'),
}

ALL = ["C%02d" % i for i in range(1, 21)]
NOT_YET = "check not built yet in this revision of /verif (work in progress; see DESIGN.md section 3 for its design)"

def main():
    checks = []
    for pid in ALL:
        if pid not in CHECKS: continue
        c = CHECKS[pid]
        checks.append({
            "property_id": pid,
            "quick_cmd": f"./check {pid} --tier quick",
            "thorough_cmd": f"./check {pid} --tier thorough",
            "evidence_file": f"/verif/evidence/{pid}.json",
            "replay_cmd_template": f"./check {pid} --replay {{path}}",
            "engine": "xv",
            "level_claimed": {"category": c["level"], "text": c["text"], "design_ref": "DESIGN.md " + c["design"]},
            "level_note": c["note"],
            "technique": c["technique"],
        })
    m = {
        "version": 1,
        "setup_cmd": "./setup.sh",
        "hooks": {
            "guard": "--cfg huggingface_xet_core_verif",
            "enable": "RUSTFLAGS='--cfg huggingface_xet_core_verif --check-cfg=cfg(huggingface_xet_core_verif)' (exported by ./check for every harness build)",
            "baseline_off_cmd": "cd /repo && cargo nextest run --workspace --no-fail-fast --test-threads 8 --offline || cargo test --workspace --no-fail-fast --offline",
            "source_commits": HOOK_COMMITS,
            "add_only": True,
        },
        "engines": [
            {"name": "xv-fuzz", "path": "/verif/fuzz", "serves_properties": ["C04", "C06", "C07", "C08", "C09"],
             "kind_free_text": "cargo-fuzz crate (libFuzzer, nightly toolchain, debug assertions and overflow checks on): targets chunker_diff, hash_text, merkle_tree, xorb_roundtrip, xorb_validate, sorted_search decode the fuzzer's bytes into structured arguments and call the same oracle functions as the proptest checks; built and driven by the xv binary in the thorough tier (harness/src/fuzzdrv.rs)"},
            {"name": "xv", "path": "/verif/harness", "serves_properties": sorted(CHECKS.keys()),
             "kind_free_text": "Rust binary (path-deps on /repo crates): seeded proptest TestRunner streams with shrinking and JSON replay files, independent reference implementations as oracles, child-process workers for configuration sweeps / crash isolation, known-findings handling, evidence writer"},
        ],
        "checks": checks,
        "notes": "All checks are driven by ./check <ID>, which rebuilds the harness against /repo's working tree with the hook guard on. exit 0 held / 1 VIOLATION / 2 inconclusive. VERIF_SEED selects the generator seed; tiers are fixed work. Known findings: /verif/known_findings.json.",
        "not_applicable": [{"property_id": p, "reason": NOT_YET} for p in ALL if p not in CHECKS],
    }
    json.dump(m, open("/verif/MANIFEST.json", "w"), indent=1)
    print("wrote MANIFEST.json with", len(checks), "checks")

HOOK_COMMITS = ["78e340d", "d44ea4a", "1cb7bec"]
FIX_COMMITS = ["05f0b8b", "5c16ad3", "5bc8107", "76f58ba", "3a5804a", "6fcb3da", "54e1f35", "c02585d", "dc8f1a6", "95554d9", "2060620"]
if __name__ == "__main__":
    main()
