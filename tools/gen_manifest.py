#!/usr/bin/env python3
"""Regenerates /verif/MANIFEST.json from the table below (single source of truth)."""
import json, sys

CHECKS = {
 "C04": dict(level="exploration", design="3/C04",
   technique="property-based testing: seeded proptest generators over byte-stream recipes and call partitions, differential against an independent reference gear chunker, metamorphic locality relation; libFuzzer target in thorough tier",
   text="Generated-input search (tens of thousands of streams x call partitions per run, all power-of-two targets 2^7..2^16) compared boundary-for-boundary with an independently written reference chunker and chunk hash; exploration is the right level because the property quantifies over unbounded byte streams and call partitions, which can only be sampled - the reference rule makes each sample a full functional check rather than a self-consistency check.",
   note="Trusts: the reference chunker in harness/src/refs/chunker.rs (written from the documented rule), the gear table data of the gearhash crate, the blake3 crate. Divisor/multiplier fixed at the shipped 8 and 2."),
 "C06": dict(level="exploration", design="3/C06",
   technique="property-based testing: seeded proptest generators over chunk lists / byte strings / hash text, differential against an independent Merkle reference and across all in-repo code paths, metamorphic change/swap/insert/drop relations, committed golden vectors",
   text="Every generated chunk list is hashed through every code path (uploader, both validators' path, file/xorb/range/salt/HMAC helpers, streaming hasher) and compared with an independently written implementation of the published construction plus golden vectors; exploration because the quantifier is over all lists/strings, sampled with engineered branching words, repeats and extreme lengths.",
   note="Trusts the reference in harness/src/refs/merkle.rs and the blake3 crate. Precondition: equal chunk hash implies equal length; all-zero leaf hashes excluded (BLAKE3 preimage)."),
 "C07": dict(level="exploration", design="3/C07",
   technique="property-based testing: seeded proptest generators over chunk lists x compression scheme, round trip against the input plus differential against an independent reference xorb decoder and across the sync / async / stream decoders; exhaustive small lengths for BG4",
   text="Round trip of generated xorbs (all schemes, all byte classes, every chunk range on small objects) checked against the original data, an independently written decoder that re-derives physical boundaries and footer, and pairwise decoder agreement under generated stream fragmentation; exploration because chunk lists and contents are unbounded.",
   note="Trusts lz4_flex frame coding (shared with the reference decoder) and harness/src/refs/xorb.rs."),
 "C08": dict(level="exploration", design="3/C08",
   technique="property-based testing / structured mutation fuzzing: generated mutation programs (region-addressed byte flips, truncation, record splices, inflated counts and lengths, stale or rebuilt footers) over valid xorbs plus random inputs, oracle = independent reference decoder (acceptance implies consistency; canonical objects must be accepted), panics caught, allocation cap enforced by a counting allocator in journaled child processes; libFuzzer target in thorough tier",
   text="Each generated (object, claimed hash) pair is run through both validators and the footer parser; acceptance is checked against a reference decoder's view of decodability, recomputed hash and footer consistency, canonical valid objects must be accepted for their own hash only, and panics / oversized allocation requests are violations. Exploration: mutation space is sampled with region-aware generators rather than enumerated.",
   note="Trusts harness/src/refs/xorb.rs and lz4_flex. The streaming validator is allowed to ignore version-0 footers and accept footer-less objects (documented behaviour); zero-chunk objects are outside the valid-object clause."),
 "C05": dict(level="exploration", design="3/C05",
   technique="property-based testing: seeded proptest generators over xorb universes with engineered 64-bit prefix collisions, query runs (present / absent / partial / past-the-end / adversarial header hash) and ShardFileManager operation histories incl. HMAC-keyed exports; oracle = map model of the universe (soundness of positive answers)",
   text="Every positive dedup answer from the in-memory index, a serialized shard and shard-manager histories (flush, planted plain and keyed shards under up to 3 keys and all include flags, re-open, consolidation) is checked against the universe of xorbs: named xorb exists, range fits, hashes equal the query prefix, byte count is the sum. Exploration over generated contents/histories; hit rate on expected-present runs is reported to expose vacuity.",
   note="Soundness only (completeness is C11's subject). Queries non-empty. Trusts the map model in harness/src/props/c05.rs."),
 "C09": dict(level="exploration", design="3/C09",
   technique="property-based testing: seeded proptest generators over shard contents with engineered truncated keys (extremes, clusters, up to 7 per prefix) and raw sorted tables with duplicate runs; oracle = the map model the shard was built from and a linear-scan model of the on-disk search; reader differential (seekable / streaming sync+async / minimal)",
   text="Generated shards (0..3000 files, 0..600 xorbs) are serialized and every key, same-prefix / neighbouring / random absent key, every scan and every reader is compared with the model maps; the interpolation search is separately compared with a linear scan on tables up to 6000 entries. Exploration because contents are unbounded; generators are built to cross the 256-entry read window and to collide prefixes.",
   note="Contents are sets of distinct keys; at most 7 records per truncated prefix (documented lookup limit). Trusts the model in harness/src/gen/shard.rs."),
 "C10": dict(level="exploration", design="3/C10",
   technique="property-based testing: seeded proptest generators over overlapping shard pairs (shared files with incomparable flag sets, shared xorbs, prefix collisions) and directory histories of shard files; oracle = map-model union / difference and record-set invariants over consolidation; differential cursor / file / in-memory implementations",
   text="Set operations on generated pairs are compared record-for-record with a model union/difference, every output record is looked up through the rebuilt tables, tables and totals are recomputed; generated session directories are consolidated under generated thresholds and the record set, returned paths (named by content hash), deletions and untouched files are checked. Exploration over pairs/directories.",
   note="Inputs unkeyed; same file hash implies same segments; optional sections agree where both present. Threshold <= 64 MiB (the routine pre-allocates buffers of the threshold size)."),
 "C18": dict(level="exploration", design="3/C18",
   technique="property-based testing: seeded proptest generators over shard contents x keys x include flags x validity; oracle = field-wise model of the keyed export with an independent HMAC, differential of shard managers over original vs exported shards (parts under different keys in one directory), expiry predicates over generated footers with clock margin",
   text="Every export is parsed and compared field-wise with the model (chunk hashes keyed by an independent keyed-BLAKE3, nothing else changed, tables iff requested and recomputed, footer key/timestamps/totals), manager answers to unkeyed queries must equal those over the original shards, and load/clean decisions are checked on both sides of both thresholds. Exploration over contents/keys/flags/timestamps.",
   note="Expiry cases keep 100 s margin around the wall clock. Manager differential uses universes with pairwise distinct chunk hashes (otherwise the truthful answer is not unique)."),
}

ALL = ["C%02d" % i for i in range(1, 21)]
NOT_YET = "check not built yet in this revision of /verif (work in progress; see DESIGN.md section 3 for its design)"

def main():
    checks = []
    for pid in ALL:
        if pid not in CHECKS: continue
        c = CHECKS[pid]
        checks.append({
            "property_id": pid,
            "quick_cmd": f"./check {pid} --tier quick",
            "thorough_cmd": f"./check {pid} --tier thorough",
            "evidence_file": f"/verif/evidence/{pid}.json",
            "replay_cmd_template": f"./check {pid} --replay {{path}}",
            "engine": "xv",
            "level_claimed": {"category": c["level"], "text": c["text"], "design_ref": "DESIGN.md " + c["design"]},
            "level_note": c["note"],
            "technique": c["technique"],
        })
    m = {
        "version": 1,
        "setup_cmd": "./setup.sh",
        "hooks": {
            "guard": "--cfg huggingface_xet_core_verif",
            "enable": "RUSTFLAGS='--cfg huggingface_xet_core_verif --check-cfg=cfg(huggingface_xet_core_verif)' (exported by ./check for every harness build)",
            "baseline_off_cmd": "cd /repo && cargo nextest run --workspace --no-fail-fast --test-threads 8 --offline || cargo test --workspace --no-fail-fast --offline",
            "source_commits": HOOK_COMMITS,
            "add_only": True,
        },
        "engines": [
            {"name": "xv", "path": "/verif/harness", "serves_properties": sorted(CHECKS.keys()),
             "kind_free_text": "Rust binary (path-deps on /repo crates): seeded proptest TestRunner streams with shrinking and JSON replay files, independent reference implementations as oracles, child-process workers for configuration sweeps / crash isolation, known-findings handling, evidence writer"},
        ],
        "checks": checks,
        "notes": "All checks are driven by ./check <ID>, which rebuilds the harness against /repo's working tree with the hook guard on. exit 0 held / 1 VIOLATION / 2 inconclusive. VERIF_SEED selects the generator seed; tiers are fixed work. Known findings: /verif/known_findings.json.",
        "not_applicable": [{"property_id": p, "reason": NOT_YET} for p in ALL if p not in CHECKS],
    }
    json.dump(m, open("/verif/MANIFEST.json", "w"), indent=1)
    print("wrote MANIFEST.json with", len(checks), "checks")

HOOK_COMMITS = []
FIX_COMMITS = ["05f0b8b"]
if __name__ == "__main__":
    main()
