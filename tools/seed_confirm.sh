#!/bin/bash
# tools/seed_confirm.sh <root> <ID>... : for each seeded worktree <root>/<ID>: demo with / without the change, then the
# workspace suite with the change, then delete the build directory. Prints one summary line per ID.
ROOT=$1; shift
for id in "$@"; do
  (
    export SEED_ROOT=$ROOT
    r=$(/verif/tools/seed_eval.sh $id 2>&1 | grep -E "exit=|NOTE" | tr '\n' ' ')
    cd $ROOT/$id && CARGO_TARGET_DIR=$ROOT/$id-target CARGO_NET_OFFLINE=true cargo test --workspace --no-fail-fast --offline -j 3 > $ROOT/$id-mysuite.log 2>&1
    p=$(grep -E '^test result' $ROOT/$id-mysuite.log | awk '{s+=$4} END{print s}')
    f=$(grep -E '^test .* FAILED' $ROOT/$id-mysuite.log | awk '{print $2}' | tr '\n' ' ')
    echo "$id: demo[$r] suite passed=$p failed=[$f] status=[$(git -C $ROOT/$id status --short | tr '\n' ' ')]"
    rm -rf $ROOT/$id-target
  ) &
done
wait
