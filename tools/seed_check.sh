#!/bin/bash
# tools/seed_check.sh <seed-id> <check ids...> : apply a seeded patch to /repo, run checks, undo
set -u
S=$1; shift
P=${SEED_PATCH:-/tmp/seed/$S-out/patch.diff}
cd /repo || exit 2
if ! git diff --quiet; then echo "/repo has uncommitted changes"; exit 2; fi
git apply $P || { echo "patch does not apply"; exit 2; }
export XV_OUT=/tmp/xv-seed-out/$S; mkdir -p $XV_OUT
for id in "$@"; do
  t0=$(date +%s)
  out=$(cd /verif && ./check $id 2>&1); rc=$?
  t1=$(date +%s)
  if [ $rc -eq 1 ]; then echo "CAUGHT  $S by $id ($((t1-t0))s): $(echo "$out" | grep -A1 '^VIOLATION' | head -2 | tr '\n' ' ' | cut -c1-330)";
  elif [ $rc -eq 0 ]; then echo "MISSED  $S by $id ($((t1-t0))s)"; else echo "INCONCLUSIVE($rc) $S by $id: $(echo "$out" | tail -3 | cut -c1-300)"; fi
done
git -C /repo checkout -- .
