#!/bin/bash
# tools/silence.sh <seed>... : run every quick check on the unchanged tree with the given generator seeds
# (evidence redirected to a scratch directory); prints one line per run and lists every non-zero exit.
cd /verif
export XV_OUT=${XV_OUT:-/tmp/xv-silence}; mkdir -p $XV_OUT
for s in "$@"; do
  for i in $(seq -w 1 20); do
    id=C$i
    out=$(VERIF_SEED=$s VERIF_TIER=quick ./check $id --tier quick 2>&1); rc=$?
    echo "seed=$s $id rc=$rc $(echo "$out" | grep -E "^$id tier" | cut -d' ' -f4-)"
    if [ $rc -ne 0 ]; then echo "$out" | grep -E "VIOLATION|INCONCLUSIVE|sig" | head -5; fi
  done
done
