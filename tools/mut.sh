#!/bin/bash
# tools/mut.sh <patch-file|-e 'sed-expr' file> -- <ID>...   : sensitivity run in the scratch worktree /tmp/wt-mut
# Applies a mutation to a scratch worktree of /repo, runs the named checks against it (outputs under
# /tmp/xv-mut-out), then restores the worktree. Prints CAUGHT/MISSED per check.
set -u
WT=${MUT_WT:-/tmp/wt-mut}
[ -d "$WT" ] || git -C /repo worktree add --detach "$WT" HEAD >/dev/null 2>&1
git -C "$WT" checkout -q -- . ; git -C "$WT" checkout -q --detach $(git -C /repo rev-parse HEAD)
if [ "$1" = "-e" ]; then sed -i "$2" "$WT/$3" || exit 2; shift 3; else git -C "$WT" apply "$1" || exit 2; shift; fi
[ "$1" = "--" ] && shift
if git -C "$WT" diff --quiet; then echo "MUTATION DID NOT CHANGE ANYTHING"; exit 2; fi
git -C "$WT" diff | grep '^[+-]' | grep -v '^+++\|^---' | head -20
export XV_OUT=${MUT_OUT:-/tmp/xv-mut-out}; mkdir -p $XV_OUT
for id in "$@"; do
  out=$(XV_REPO=$WT /verif/check $id 2>&1); rc=$?
  if [ $rc -eq 1 ]; then echo "CAUGHT $id: $(echo "$out" | grep -A1 '^VIOLATION' | head -2 | tr '\n' ' ' | cut -c1-400)";
  elif [ $rc -eq 0 ]; then echo "MISSED $id"; else echo "INCONCLUSIVE($rc) $id: $(echo "$out" | tail -5)"; fi
done
git -C "$WT" checkout -q -- .
